#!/bin/bash
# tools/run_all.sh <quick|thorough> [ids...]  - runs the checks one after the other, logs exit codes and wall time.
TIER=${1:-quick}; shift
IDS=${@:-C01 C02 C03 C04 C05 C06 C07 C08 C09 C10 C11 C12 C13 C14 C15 C16 C17 C18 C19 C20}
cd "$(dirname "$0")/.."
mkdir -p .cache
for C in $IDS; do
  S=$(date +%s)
  ./check $C --tier $TIER > .cache/run_${TIER}_$C.log 2>&1; RC=$?
  E=$(date +%s)
  echo "$C $TIER exit=$RC wall=$((E-S))s $(grep "^$C \[" .cache/run_${TIER}_$C.log | cut -c1-220)"
done
