#!/usr/bin/env python3
"""Regenerates MANIFEST.json from the table below (properties.jsonl gives the ids)."""
import json, os
ROOT = os.path.dirname(os.path.dirname(os.path.abspath(__file__)))
props = [json.loads(l) for l in open(os.path.join(ROOT, "properties.jsonl"))]
MC = "model_checking"
CLAIMS = {
 "C01": dict(engine="SYMX", text="Bounded model checking of the real process() pipeline on symbolic three-component samples with an arbitrary symbolic taper: for every key of the combine/processing registers (aliases included), single azimuth, RotDpp, azimuthal and diffuse field, and all seven smoothing operators, each output cell is proved (unsat of the negation, per feasible path) equal to Smooth(combine_spec(|F ns|,|F ew|))/Smooth(|F vt|) built from an independent reference table; stage lemmas (homogeneity, closed form, DFT linearity) in exact-sqrt arithmetic; scale laws as corollaries.",
   note="Bounds: 3 samples per component, n_fft 4 (exact DFT) and 16 (opaque spectrum symbols) [8 in thorough], 1-2 records, 2-3 centre frequencies on non-empty windows, 2 azimuths. |.| and sqrt uninterpreted at composition level; smoothing = the real operators on a concrete grid (kernel identity is C02); nextpow2 floor lowered by wrapping; FFT rounding and larger n outside the claim.",
   tech="symbolic execution of the real pipeline + z3 (UF+LRA/NRA, nlsat on UF-abstraction) cell-equality queries against a reference table; lemma-then-compose", ref="2/C01"),
 "C02": dict(engine="SYMX", text="Bounded model checking of the interpreted source of the seven smoothing operators on a symbolic grid (symbolic spacing, centre frequency, bandwidth, spectrum): on every solver-enumerated path (which bins fall in the window, which guards fire) the output is proved equal to the weight-normalised average under the published kernel (0 for empty windows); constant reproduction, non-negative weights, row independence, convexity and linearity lemmas, Savitzky-Golay least-squares coefficients and cubic reproduction as separate queries.",
   note="Bounds: 5 bins (quick) / 5-8 (thorough), 2-3 rows, 1-2 symbolic centre frequencies; SG on a concrete grid with symbolic spectrum, m in {5,7} / {5..11}. sin/log10/10**x uninterpreted (with sound monotone-inverse instances), floats as reals (1e-6 guards and edges exact). Compiled==interpreted is compared on the solver-chosen path witnesses only (reported as such), not decided.",
   tech="symbolic execution of the interpreted kernels + z3 per-path equality with the published weight formula; nlsat lemmas; compiled kernels run on the path witnesses", ref="2/C02"),
 "C03": dict(engine="SYMX+CrossHair", text="(a) CrossHair confirms over all paths, for 4 records with symbolic time-step codes, that the two 'keeping' policies of the real prepare_records_with_inconsistent_dt retain exactly the records with the smallest / a most frequent time step in original order (reachability twins refuted); (b-d) SYMX runs process() end to end for solver-forked time-step patterns of 2-4 records, three policies and the three copies of the row bookkeeping (frequency-domain, single azimuth, RotDpp) plus azimuthal: per path the number of curves, the frequencies, equality (as terms) of every row with the row of that record processed alone at the same FFT length, also for the rotated list, and non-negativity are proved; (e) the Nyquist guard raises exactly when a (symbolic) centre frequency exceeds 1/(2 dt_max).",
   note="Bounds: 2-4 records, 2 (3) distinct time steps, 3 samples, n_fft 4 fixed via fft_settings, 2 centre frequencies. Same stubs as C01; 'finite' when the smoothed vertical spectrum is exactly zero is outside the claim (degenerate division paths are counted).",
   tech="CrossHair (z3) contracts on the real policy function + symbolic execution of process() with z3 row-equality queries", ref="2/C03"),
 "C04": dict(engine="SYMX", text="Bounded model checking of the real orientation code on symbolic samples and symbolic (unbounded) angles with cos/sin uninterpreted plus Pythagoras and instantiated addition/periodicity identities: re-orientation is the clockwise-from-north rotation by (target - current) (energy preserving, vertical untouched, composable, invertible, bookkeeping updated, deployed angle stored modulo 360); polarised motion reappears on its azimuth after orienting to north; single_azimuth == north component after orient_sensor_to; 180-degree periodicity of single-azimuth HVSR; azimuthal result == stack of single-azimuth results; RotD_p <= RotD_q; per-bin |F ns|^2+|F ew|^2 invariant under any orientation and the squared-average / total-energy combine functions are functions of a^2+b^2 only (exact sqrt).",
   note="Bounds: 2-3 samples, 2 azimuths, n_fft 4 (exact DFT), arbitrary taper. Trigonometric identities enter only as instances for the angle sums that occur (each justified by a separate linear-arithmetic query that the angle expressions coincide). Rounding of np.radians/cos/sin outside the claim. Full-pipeline rotation invariance is composed from the per-bin power lemma, the combine-function lemma and C01's structural identity.",
   tech="symbolic execution with uninterpreted cosd/sind + instantiated trigonometric identities; z3 / nlsat queries", ref="2/C04"),
 "C05": dict(engine="SYMX", text="Bounded model checking of every statistic accessor of HvsrTraditional from an arbitrary valid state (symbolic curves and peaks, solver-forked accept/reject/no-peak status per window, three distribution spellings): per state the returned term is proved equal (unsat of the negation) to the textbook estimator over the accepted rows; frame condition on the symbols of rejected windows; reciprocal/symmetry consequences; a transition instance covers constructor + range update.",
   note="Bounds: 2-3 (quick) / 2-4 (thorough) windows, 2/3 frequencies. Floats read as reals; sqrt/exp/log uninterpreted with log(exp u)=u (argument equality is decided); np.cov runs numpy's own code via aweights=ones. States are constructed directly (one step from any valid state), transitions into those states are covered by C06/C08/C13.",
   tech="symbolic execution of the real source from an arbitrary valid state + z3 (NRA/UF) equality queries against textbook estimators", ref="2/C05"),
 "C06": dict(engine="SYMX", text="Bounded model checking of the real FDWRA code: the inner routine is executed from an arbitrary valid state (symbolic peak frequencies, curves and n; every max_iterations in the bound; 4 distribution pairs) next to a transcription of the published loop on a shadow state, and on every solver-enumerated path the masks, the returned count, monotonicity and the iteration bound must agree; the outer function is checked to be 'peak search + inner routine per object, maximum of the counts'; small end-to-end runs on constructor-built traditional and azimuthal objects; permutation and scale invariance.",
   note="Bounds: 3-4 (quick) / 3-5 (thorough) windows, 3-4 frequencies, max_iterations 1-3/1-4, 2 azimuths. The estimators the loop calls are C05's subject (the reference calls the same accessors on a shadow object). sqrt/exp/log uninterpreted with monotone log-space comparisons; witnesses are concretised across the uninterpreted-function gap and replayed. Rounding in the 0.01 tests outside the claim.",
   tech="symbolic execution of the real source vs. reference transcription of Cox et al. (2020), path-wise agreement decided by z3 branch feasibility; witnesses replayed", ref="2/C06"),
 "C09": dict(engine="SYMX", text="Bounded model checking of process() for every method family (frequency-domain combinations, single azimuth, RotDpp, azimuthal, diffuse field, PSD with and without smoothing) on records with symbolic samples and an arbitrary symbolic taper: per solver-enumerated path, (1) every input sample term after the call equals the term before (unsat query), time step/orientation/metadata/settings unchanged; (2) a second call returns the same terms; (3) the result's object graph shares no mutable object with records or settings (heap-shape assertion on each explored path, replayed concretely by mutating the inputs afterwards).",
   note="Bounds: 3 samples, 1-2 records, n_fft 4 (8 in thorough). Frame and repeatability are solver-decided on terms; isolation is an alias analysis of the concrete heap of each explored path (numpy object arrays keep numpy's own view/copy semantics). Same stubs as C01.",
   tech="symbolic execution of the real pipeline; frame/repeatability as z3 term-equality queries, alias check on the explored heaps; witnesses replayed", ref="2/C09"),
 "C11": dict(engine="SYMX", text="Bounded model checking of every statistic accessor of HvsrAzimuthal (numpy's own np.cov(aweights=) included) from an arbitrary valid state with solver-forked accept/reject status per window and azimuth: weights, means, 1-sum(w^2)-normalised deviations, covariance, mean/std curves are proved equal to the equal-azimuth-weight estimators; cov diagonal = std^2; azimuth-order invariance; single azimuth = traditional statistics.",
   note="Bounds: 1-2 (quick) / 1-3 (thorough) azimuths x 2-3 windows x 2-3 frequencies. Accepted windows are assumed to have a peak; floats as reals with concrete float constants read as the simple rationals they round; sqrt/exp/log uninterpreted (argument equality decided).",
   tech="symbolic execution from an arbitrary valid state + z3 equality queries against the Cheng et al. weighted estimators", ref="2/C11"),
 "C08": dict(engine="SYMX", text="Bounded model checking of the real peak-picking code: every feasible path of HvsrCurve/HvsrTraditional/HvsrAzimuthal/HvsrDiffuseField peak search on symbolic curves, grids and ranges is enumerated by the solver and the property is discharged per path as an unsat query; holds for all real-valued curves within the size bounds, not beyond.",
   note="Bounds: 4-5 (quick) / 4-7 (thorough) points per curve, <=2/3 curves, <=2 azimuths, <=2 range updates. scipy.signal.find_peaks replaced by a transcription of _local_maxima_1d validated against scipy on path witnesses; real arithmetic; find_peaks_kwargs beyond none outside the claim.",
   tech="symbolic execution of the real source + z3 (LRA) per-path unsat queries; witnesses replayed", ref="2/C08"),
}
NOT_APPLICABLE = {}
man = {"version": 1, "setup_cmd": "./setup.sh",
       "hooks": {"guard": "HVSRPY_VERIF",
                 "enable": "no source hooks are needed: the checks import /repo/hvsrpy/*.py from the working tree under proxy modules (DESIGN.md 1.1)",
                 "baseline_off_cmd": "cd /repo && /venv/bin/python -m pytest -ra -q -p no:cacheprovider --timeout=900 --continue-on-collection-errors",
                 "source_commits": [], "add_only": True},
       "engines": [], "checks": [], "not_applicable": [],
       "notes": "One entry point: ./check <Cxx> [--tier quick|thorough] [--replay file]. Every check re-imports /repo/hvsrpy from the working tree, decides its obligations with z3/cvc5 (or CrossHair), replays each solver witness on the unshimmed library before printing VIOLATION, and writes evidence/<id>.json. See DESIGN.md."}
eng = {}
for p in props:
    pid = p["id"]
    if pid in CLAIMS:
        c = CLAIMS[pid]
        eng.setdefault(c["engine"], []).append(pid)
        man["checks"].append({"property_id": pid, "quick_cmd": f"./check {pid} --tier quick", "thorough_cmd": f"./check {pid} --tier thorough",
                              "evidence_file": f"evidence/{pid}.json", "replay_cmd_template": f"./check {pid} --replay {{path}}", "engine": c["engine"],
                              "level_claimed": {"category": c.get("cat", MC), "text": c["text"], "design_ref": c["ref"]},
                              "level_note": c["note"], "technique": c["tech"]})
    else:
        man["not_applicable"].append({"property_id": pid, "reason": NOT_APPLICABLE.get(pid, "check not built yet (work in progress; planned engine in DESIGN.md section 2)")})
KIND = {"SYMX": ("symx/", "symbolic execution of the real hvsrpy source on z3-backed values (decision-prefix path exploration); obligations decided by z3; witnesses replayed on the unshimmed library"),
        "CrossHair": ("xhair/", "crosshair-tool contracts over the real functions (per-path z3)"),
        "SMT": ("smt/", "direct SMT encodings regenerated from the source AST (QF_BVFP, regex/strings), z3 + cvc5")}
for k, v in eng.items():
    names = k.split("+")
    man["engines"].append({"name": k, "path": KIND.get(names[0], ("symx/", ""))[0], "serves_properties": v,
                           "kind_free_text": "; ".join(KIND[n][1] for n in names if n in KIND)})
json.dump(man, open(os.path.join(ROOT, "MANIFEST.json"), "w"), indent=1)
print("claimed", sorted(CLAIMS), "not applicable", len(man["not_applicable"]))
