#!/bin/bash
# tools/seed_eval.sh <property id> <worktree> <name> [extra check ids]: confirm a seeded change in its scratch worktree, store it under
# /verif/seeded/<name>/, run the check(s) against it in /repo and undo it.
set -u
PID=$1; WT=$2; NAME=$3; shift 3; CHECKS="$PID $*"; TAG=${TAG:-$PID}
OUT=/verif/seeded/$NAME; mkdir -p $OUT
cd $WT || exit 2
/venv/bin/python demo_$TAG.py > $OUT/demo_with_change.log 2>&1; W=$?
cp patch_$TAG.diff $OUT/patch.diff; cp demo_$TAG.py $OUT/demo.py
git diff -- hvsrpy > /tmp/current_$TAG.diff; cmp -s /tmp/current_$TAG.diff $OUT/patch.diff || echo "NOTE: worktree diff differs from the saved patch"
git apply -R $OUT/patch.diff; /venv/bin/python demo_$TAG.py > $OUT/demo_without_change.log 2>&1; WO=$?; git apply $OUT/patch.diff
echo "demo with change: exit $W ; without: exit $WO"
cd /repo && git apply $OUT/patch.diff || { echo "patch does not apply"; exit 2; }
RES=""
for C in $CHECKS; do
  (cd /verif && ./check $C --tier quick > $OUT/check_$C.log 2>&1); RC=$?
  V=$(grep -c "^VIOLATION" $OUT/check_$C.log)
  echo "check $C: exit $RC, $V VIOLATION line(s)"; grep -A1 "^VIOLATION" $OUT/check_$C.log | head -6 | cut -c1-260
  RES="$RES $C:$RC"
done
git -C /repo checkout -- . ; git -C /repo status --short | head -3
echo "$W $WO $RES" > $OUT/result.txt
