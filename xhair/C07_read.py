"""CrossHair contracts for C07: argument routing of hvsrpy.read() and the trace arrangement of the obspy-based readers."""
from typing import List
import importlib
import os
import sys
import types
import warnings

REPO = os.environ.get("HVSRPY_REPO", "/repo")
warnings.simplefilter("ignore")
if "hvsrpy" not in sys.modules:
    _pkg = types.ModuleType("hvsrpy")
    _pkg.__path__ = [os.path.join(REPO, "hvsrpy")]
    sys.modules["hvsrpy"] = _pkg
if "obspy" not in sys.modules:           # the routing code does not touch obspy; avoid its import cost under tracing
    sys.modules["obspy"] = types.ModuleType("obspy")
DW = importlib.import_module("hvsrpy.data_wrangler")


def read_routing(n: int, per_record_deg: bool, per_record_kw: bool, d0: int, d1: int, d2: int) -> bool:
    """
    read() hands recording i its own file name(s), reader options and degrees_from_north, whether the latter two are given
    once or per recording
    pre: 1 <= n <= 3 and 0 <= d0 < 360 and 0 <= d1 < 360 and 0 <= d2 < 360
    post: _
    """
    seen = []
    orig = DW.read_single
    DW.read_single = lambda fname, obspy_read_kwargs=None, degrees_from_north=None: seen.append((fname, obspy_read_kwargs, degrees_from_north))
    try:
        degs = [float(d0), float(d1), float(d2)][:n]
        kws = [{"k": i} for i in range(n)]
        DW.read([[f"f{i}a", f"f{i}b", f"f{i}c"] for i in range(n)],
                obspy_read_kwargs=kws if per_record_kw else {"k": 0},
                degrees_from_north=degs if per_record_deg else float(d0))
    finally:
        DW.read_single = orig
    ok = len(seen) == n
    for i, (f, kw, dg) in enumerate(seen):
        ok = ok and f == [f"f{i}a", f"f{i}b", f"f{i}c"] and kw == ({"k": i} if per_record_kw else {"k": 0}) and dg == (degs[i] if per_record_deg else float(d0))
    return ok


def read_routing_reach(n: int, per_record_deg: bool, per_record_kw: bool, d0: int, d1: int, d2: int) -> bool:
    """
    pre: 1 <= n <= 3 and 0 <= d0 < 360 and 0 <= d1 < 360 and 0 <= d2 < 360
    post: False
    """
    return read_routing(n, per_record_deg, per_record_kw, d0, d1, d2)


class _Meta:
    def __init__(self, channel):
        self.channel = channel


class _Stats:
    delta = 0.01


class _Trace:
    def __init__(self, channel, tag):
        self.meta = _Meta(channel)
        self.data = [float(tag), float(tag) + 0.5]
        self.stats = _Stats()


ALPHABET = ["E", "N", "Z", "e", "1", ""]
PREFIX = ["BH", "", "HN"]


def arrange(a: int, b: int, c: int, p: int) -> bool:
    """
    three traces whose channel codes end in E, N, Z in any order come back as (ns, ew, vt) holding the payload of the
    trace with that suffix; any other combination of suffixes (lower case, digit, empty, duplicate) raises ValueError
    pre: 0 <= a < 6 and 0 <= b < 6 and 0 <= c < 6 and 0 <= p < 3
    post: _
    """
    suffix = [ALPHABET[a], ALPHABET[b], ALPHABET[c]]
    chans = [PREFIX[p] + x for x in suffix]
    traces = [_Trace(ch, i + 1) for i, ch in enumerate(chans)]
    suffix = [ch[-1] if ch else "" for ch in chans]           # what counts is the last character of the whole code
    well_formed = sorted(suffix) == ["E", "N", "Z"]
    try:
        ns, ew, vt = DW._arrange_traces(traces)
    except ValueError:
        return not well_formed
    if not well_formed:
        return False
    want = {x: float(i + 1) for i, x in enumerate(suffix)}
    return ns.amplitude[0] == want["N"] and ew.amplitude[0] == want["E"] and vt.amplitude[0] == want["Z"] and ns.dt_in_seconds == 0.01


PERMS = [("E", "N", "Z"), ("E", "Z", "N"), ("N", "E", "Z"), ("N", "Z", "E"), ("Z", "E", "N"), ("Z", "N", "E")]
MIXED_PREFIX = ["BH", "EH", "HN"]


def arrange_mixed(perm: int, p1: int, p2: int, p3: int) -> bool:
    """
    the orientation of a channel is the LAST character of its code: traces whose codes carry different band / instrument
    prefixes (EHZ with HHN / HHE, HNN / HNE with BHZ - legitimate SEED naming) are arranged by that character alone
    pre: 0 <= perm < 6 and 0 <= p1 < 3 and 0 <= p2 < 3 and 0 <= p3 < 3
    post: _
    """
    suffix = PERMS[perm]
    chans = [MIXED_PREFIX[p] + x for p, x in zip((p1, p2, p3), suffix)]
    traces = [_Trace(ch, i + 1) for i, ch in enumerate(chans)]
    ns, ew, vt = DW._arrange_traces(traces)
    want = {x: float(i + 1) for i, x in enumerate(suffix)}
    return ns.amplitude[0] == want["N"] and ew.amplitude[0] == want["E"] and vt.amplitude[0] == want["Z"]


def arrange_mixed_reach(perm: int, p1: int, p2: int, p3: int) -> bool:
    """
    pre: 0 <= perm < 6 and 0 <= p1 < 3 and 0 <= p2 < 3 and 0 <= p3 < 3
    post: False
    """
    return arrange_mixed(perm, p1, p2, p3)


def arrange_reach(a: int, b: int, c: int, p: int) -> bool:
    """
    pre: 0 <= a < 6 and 0 <= b < 6 and 0 <= c < 6 and 0 <= p < 3
    post: False
    """
    return arrange(a, b, c, p)
