"""CrossHair contracts for C15: settings objects are independent of one another and round-trip through files.

Every execution starts by re-importing hvsrpy.settings outside tracing: the state under test (default argument objects) is
module-level, and without the reload a mutation made on one explored path would leak into the next one."""
from typing import List, Tuple
import copy
import importlib
import os
import sys
import tempfile
import types
import warnings

REPO = os.environ.get("HVSRPY_REPO", "/repo")
warnings.simplefilter("ignore")
if "hvsrpy" not in sys.modules:
    _pkg = types.ModuleType("hvsrpy")
    _pkg.__path__ = [os.path.join(REPO, "hvsrpy")]
    sys.modules["hvsrpy"] = _pkg
import numpy as np
S = importlib.import_module("hvsrpy.settings")

NAMES = ["HvsrPreProcessingSettings", "PsdPreProcessingSettings", "PsdProcessingSettings", "HvsrTraditionalProcessingSettings",
         "HvsrTraditionalSingleAzimuthProcessingSettings", "HvsrTraditionalRotDppProcessingSettings",
         "HvsrAzimuthalProcessingSettings", "HvsrDiffuseFieldProcessingSettings"]


def plain(v):
    if isinstance(v, np.ndarray):
        return v.tolist()
    if isinstance(v, dict):
        return {str(k): plain(x) for k, x in v.items()}
    if isinstance(v, (list, tuple)):
        return [plain(x) for x in v]
    return v


def snap(o):
    return {k: copy.deepcopy(plain(getattr(o, k))) for k in o.attrs}


PRISTINE = [snap(getattr(S, n)()) for n in NAMES]


def fresh_module():
    import crosshair
    with crosshair.NoTracing():
        return importlib.reload(S)


def mutate(o, kind: int, val: float) -> bool:
    """in-place mutation of a mutable attribute value; returns False if the object has no such attribute"""
    if kind == 0 and hasattr(o, "window_type_and_width"):
        o.window_type_and_width[1] = val
    elif kind == 1 and hasattr(o, "filter_corner_frequencies_in_hz"):
        o.filter_corner_frequencies_in_hz[0] = val
    elif kind == 2 and getattr(o, "smoothing", None) is not None:
        o.smoothing["center_frequencies_in_hz"][0] = val
    elif kind == 3 and getattr(o, "smoothing", None) is not None:
        o.smoothing["bandwidth"] = val
    elif kind == 4 and hasattr(o, "azimuths_in_degrees"):
        o.azimuths_in_degrees[0] = val
    elif kind == 5 and hasattr(o, "window_type_and_width"):
        o.window_type_and_width = ["tukey", val]          # assignment, not in-place
    else:
        return False
    return True


def history(c0: int, c1: int, kind: int, val: float, c2: int) -> bool:
    """
    construct c0 ; construct c1 and mutate one of its attributes ; construct c2:
    c0 is unchanged and c2 has the pristine defaults.
    pre: 0 <= c0 < 8 and 0 <= c1 < 8 and 0 <= c2 < 8 and 0 <= kind < 6 and val == val and -1e6 < val < 1e6
    post: _
    """
    M = fresh_module()
    o0 = getattr(M, NAMES[c0])()
    before = snap(o0)
    o1 = getattr(M, NAMES[c1])()
    mutate(o1, kind, val)
    o2 = getattr(M, NAMES[c2])()
    return snap(o0) == before and snap(o2) == PRISTINE[c2]


ENV_C1 = int(os.environ.get("XH_C1", "0"))
ENV_KIND = int(os.environ.get("XH_KIND", "0"))


def history_env(c0: int, c2: int) -> bool:
    """
    as `history`, with the mutated class and the mutation kind fixed by the environment (XH_C1, XH_KIND) and a fixed
    value written (the value is irrelevant to aliasing; a symbolic float would be realised at the numpy boundary and
    CrossHair could then not confirm): the remaining path space (8 x 8 classes) is confirmed over all paths
    pre: 0 <= c0 < 8 and 0 <= c2 < 8
    post: _
    """
    val = 0.12345
    M = fresh_module()
    o0 = getattr(M, NAMES[c0])()
    before = snap(o0)
    o1 = getattr(M, NAMES[ENV_C1])()
    mutate(o1, ENV_KIND, val)
    o2 = getattr(M, NAMES[c2])()
    return snap(o0) == before and snap(o2) == PRISTINE[c2]


def history_env_reach(c0: int, c2: int) -> bool:
    """
    pre: 0 <= c0 < 8 and 0 <= c2 < 8
    post: False
    """
    val = 0.12345
    M = fresh_module()
    o1 = getattr(M, NAMES[ENV_C1])()
    mutate(o1, ENV_KIND, val)
    return True


def history_reach(c0: int, c1: int, kind: int, val: float, c2: int) -> bool:
    """
    pre: 0 <= c0 < 8 and 0 <= c1 < 8 and 0 <= c2 < 8 and 0 <= kind < 6 and val == val and -1e6 < val < 1e6
    post: False
    """
    M = fresh_module()
    o1 = getattr(M, NAMES[c1])()
    return mutate(o1, kind, val)


def two_mutations(c1: int, k1: int, v1: float, c2: int, k2: int, v2: float, c3: int) -> bool:
    """
    two objects are mutated one after the other; the first keeps its own value, a third fresh object has the defaults
    pre: 0 <= c1 < 8 and 0 <= c2 < 8 and 0 <= c3 < 8 and 0 <= k1 < 6 and 0 <= k2 < 6 and v1 == v1 and v2 == v2 and -1e6 < v1 < 1e6 and -1e6 < v2 < 1e6
    post: _
    """
    M = fresh_module()
    o1 = getattr(M, NAMES[c1])()
    mutate(o1, k1, v1)
    s1 = snap(o1)
    o2 = getattr(M, NAMES[c2])()
    mutate(o2, k2, v2)
    o3 = getattr(M, NAMES[c3])()
    return snap(o1) == s1 and snap(o3) == PRISTINE[c3]


IO = importlib.import_module("hvsrpy.object_io")
PROC = importlib.import_module("hvsrpy.processing")
METHODS = {3: sorted(PROC.COMBINE_HORIZONTAL_REGISTER), 4: sorted(k for k, f in PROC.TRADITIONAL_PROCESSING_REGISTER.items() if f is PROC.traditional_single_azimuth_hvsr_processing),
           5: sorted(k for k, f in PROC.TRADITIONAL_PROCESSING_REGISTER.items() if f is PROC.traditional_rotdpp_hvsr_processing)}


class MemFS:
    """in-memory files for the modules' open(): the real json.dump / json.load run on them (CrossHair blocks real file writes)"""

    def __init__(self):
        self.files = {}

    def open(self, path, mode="r"):
        import io
        fs = self

        class F(io.StringIO):
            def __exit__(s, *a):
                if "w" in mode:
                    fs.files[path] = s.getvalue()
                return io.StringIO.__exit__(s, *a)
        return F("" if "w" in mode else fs.files[path])


def roundtrip(c: int, mi: int, v: float, via_reader: bool) -> bool:
    """
    save a settings object of class c (method alias mi where the class has one, a float attribute set to v) and load it back,
    directly or through the type-dispatching reader: same class, content-equal attributes.
    pre: 0 <= c < 8 and 0 <= mi < 9 and v == v and 0 <= v <= 1
    post: _
    """
    M = fresh_module()
    o = getattr(M, NAMES[c])()
    if c in METHODS:
        o.method_to_combine_horizontals = METHODS[c][mi % len(METHODS[c])]
    if hasattr(o, "window_type_and_width"):
        o.window_type_and_width = ["tukey", v]
    else:
        o.window_length_in_seconds = 10.0 + v
    fs = MemFS()
    path = "settings.json"
    M.open = fs.open
    IO.open = fs.open
    try:
        o.save(path)
        if via_reader:
            # the reader module holds its own reference to the settings classes: compare by class name
            r = IO.read_settings_object_from_file(path)
        else:
            r = getattr(M, NAMES[c])()
            r.load(path)
    finally:
        del M.open
        del IO.open
    return type(r).__name__ == type(o).__name__ and snap(r) == snap(o) and list(r.attrs) == list(o.attrs)


def roundtrip_env(mi: int, via_reader: bool) -> bool:
    """
    as `roundtrip` with the class fixed by the environment (XH_C1) and a fixed attribute value
    pre: 0 <= mi < 9
    post: _
    """
    return roundtrip(ENV_C1, mi, 0.37, via_reader)


def roundtrip_after_read(kind: int, via_reader: bool) -> bool:
    """
    history: construct (class from XH_C1) ; something reads the object (attr_dict / repr, as process() and save() do) ; an attribute
    value is mutated in place ; save ; load  =>  the loaded object has the CURRENT content of the saved one
    pre: 0 <= kind < 6
    post: _
    """
    M = fresh_module()
    o = getattr(M, NAMES[ENV_C1])()
    _ = dict(o.attr_dict)
    _ = repr(o)
    if not mutate(o, kind, 0.4321):
        return True
    fs = MemFS()
    M.open = fs.open
    IO.open = fs.open
    try:
        o.save("s.json")
        if via_reader:
            r = IO.read_settings_object_from_file("s.json")
        else:
            r = getattr(M, NAMES[ENV_C1])()
            r.load("s.json")
    finally:
        del M.open
        del IO.open
    return type(r).__name__ == type(o).__name__ and snap(r) == snap(o)


def load_into_used(fft_kind: int, target_kind: int) -> bool:
    """
    load() into an object that was already used (its dict-valued attributes hold other keys than the file's): the loaded
    object has exactly the saved content, nothing of the target's earlier state survives
    pre: 0 <= fft_kind < 3 and 0 <= target_kind < 3
    post: _
    """
    M = fresh_module()
    cls = getattr(M, NAMES[ENV_C1])
    o = cls()
    if not hasattr(o, "fft_settings"):
        return True
    o.fft_settings = [None, {"norm": "ortho"}, {"n": 64, "norm": "ortho"}][fft_kind]
    target = cls()
    target.fft_settings = [None, {"n": 32768}, {"n": 16, "axis": -1}][target_kind]       # e.g. left behind by an earlier process() call
    if hasattr(target, "smoothing") and isinstance(target.smoothing, dict):
        target.smoothing["leftover"] = 1
    fs = MemFS()
    M.open = fs.open
    try:
        o.save("s.json")
        target.load("s.json")
    finally:
        del M.open
    return snap(target) == snap(o)


def roundtrip_reach(c: int, mi: int, v: float, via_reader: bool) -> bool:
    """
    pre: 0 <= c < 8 and 0 <= mi < 9 and v == v and 0 <= v <= 1
    post: False
    """
    return roundtrip(c, mi, v, via_reader)
