"""CrossHair contracts for C03: the dissimilar-time-step policies of the real
hvsrpy.processing.prepare_records_with_inconsistent_dt on stub records (real dict / loop semantics)."""
from typing import List
import os, sys, warnings
sys.path.insert(0, os.environ.get("HVSRPY_REPO", "/repo"))
warnings.simplefilter("ignore")
import importlib.util
_spec = importlib.util.spec_from_file_location("hv_processing_dt", os.path.join(os.environ.get("HVSRPY_REPO", "/repo"), "hvsrpy", "processing.py"),
                                               submodule_search_locations=None)


def _load():
    # import hvsrpy.processing without running hvsrpy/__init__ (obspy, matplotlib): minimal package shell
    import types, importlib
    if "hvsrpy" not in sys.modules:
        pkg = types.ModuleType("hvsrpy")
        pkg.__path__ = [os.path.join(os.environ.get("HVSRPY_REPO", "/repo"), "hvsrpy")]
        sys.modules["hvsrpy"] = pkg
    return importlib.import_module("hvsrpy.processing")


P = _load()


class _TS:
    def __init__(self, dt, n):
        self.dt_in_seconds = dt
        self.n_samples = n


class _Rec:
    def __init__(self, dt, n, tag):
        self.ns = self.ew = self.vt = _TS(dt, n)
        self.tag = tag


class _Settings:
    def __init__(self, policy, fft=None):
        self.handle_dissimilar_time_steps_by = policy
        self.fft_settings = fft


def keep_smallest4(a: int, b: int, c: int, d: int) -> List[int]:
    """
    pre: all(1 <= x <= 3 for x in (a, b, c, d))
    post: _ == [i for i, x in enumerate((a, b, c, d)) if x == min(a, b, c, d)]
    """
    recs = [_Rec(x, 10, i) for i, x in enumerate((a, b, c, d))]
    out, cnt = P.prepare_records_with_inconsistent_dt(recs, _Settings("keeping_smallest_time_step"))
    return [r.tag for r in out]


def keep_smallest4_reach(a: int, b: int, c: int, d: int) -> List[int]:
    """
    pre: all(1 <= x <= 3 for x in (a, b, c, d))
    post: False
    """
    recs = [_Rec(x, 10, i) for i, x in enumerate((a, b, c, d))]
    out, cnt = P.prepare_records_with_inconsistent_dt(recs, _Settings("keeping_smallest_time_step"))
    return [r.tag for r in out]


def keep_majority4(a: int, b: int, c: int, d: int) -> bool:
    """
    pre: all(1 <= x <= 3 for x in (a, b, c, d))
    post: _
    """
    dts = (a, b, c, d)
    recs = [_Rec(x, 10, i) for i, x in enumerate(dts)]
    out, cnt = P.prepare_records_with_inconsistent_dt(recs, _Settings("keeping_majority_time_step"))
    kept = [r.tag for r in out]
    if not kept:
        return False
    d0 = dts[kept[0]]
    c0 = sum(1 for x in dts if x == d0)
    return (kept == [i for i, x in enumerate(dts) if x == d0] and all(sum(1 for x in dts if x == e) <= c0 for e in dts)
            and cnt == {d0: c0})


def keep_majority4_reach(a: int, b: int, c: int, d: int) -> bool:
    """
    pre: all(1 <= x <= 3 for x in (a, b, c, d))
    post: False
    """
    dts = (a, b, c, d)
    recs = [_Rec(x, 10, i) for i, x in enumerate(dts)]
    out, cnt = P.prepare_records_with_inconsistent_dt(recs, _Settings("keeping_majority_time_step"))
    return bool(out)


def resampling_keeps_all3(a: int, b: int, c: int) -> bool:
    """
    pre: all(1 <= x <= 3 for x in (a, b, c))
    post: _
    """
    dts = (a, b, c)
    recs = [_Rec(x, 10, i) for i, x in enumerate(dts)]
    out, cnt = P.prepare_records_with_inconsistent_dt(recs, _Settings("frequency_domain_resampling"))
    return [r.tag for r in out] == [0, 1, 2] and all(cnt[x] == sum(1 for y in dts if y == x) for x in dts) and sum(cnt.values()) == 3
