"""CrossHair contract for C19: within one chunk of the command line's worker pool the same settings object is handed to
every file, so the FFT length prepared for a file must not depend on the files processed before it."""
import importlib
import os
import sys
import types
import warnings

REPO = os.environ.get("HVSRPY_REPO", "/repo")
warnings.simplefilter("ignore")
if "hvsrpy" not in sys.modules:
    _pkg = types.ModuleType("hvsrpy")
    _pkg.__path__ = [os.path.join(REPO, "hvsrpy")]
    sys.modules["hvsrpy"] = _pkg
P = importlib.import_module("hvsrpy.processing")


class _TS:
    def __init__(self, n):
        self.n_samples = n
        self.dt_in_seconds = 0.01


class _Rec:
    def __init__(self, n):
        self.ns = self.ew = self.vt = _TS(n)


class _Settings:
    def __init__(self, fft=None):
        self.fft_settings = fft


import copy
# what the worker hands to the library for the settings object of its chunk - established by harness/C19.py on the real
# cli._process_hvsr: "0" the chunk's own object, "1" a private deep copy per file, "2" a copy that still shares nested objects
WORKER_COPIES = os.environ.get("XH_WORKER_COPIES", "0")


def _handed(shared):
    if WORKER_COPIES == "1":
        return copy.deepcopy(shared)
    if WORKER_COPIES == "2":
        return copy.copy(shared)
    return shared


def chunk_fft_length(n1: int, n2: int, explicit: bool) -> bool:
    """
    a file of n2 samples handled after a file of n1 samples in the same chunk gets the FFT length it gets alone - with the default
    settings (fft_settings None) and with a settings file that carries an explicit fft_settings dictionary
    pre: 1 <= n1 <= 300000 and 1 <= n2 <= 300000
    post: _
    """
    mk = (lambda: _Settings({"n": 32768})) if explicit else (lambda: _Settings(None))
    shared = mk()
    P.prepare_fft_settings([_Rec(n1)], _handed(shared))
    second = _handed(shared)
    P.prepare_fft_settings([_Rec(n2)], second)
    alone = mk()
    P.prepare_fft_settings([_Rec(n2)], alone)
    return second.fft_settings["n"] == alone.fft_settings["n"]


def chunk_fft_length_reach(n1: int, n2: int, explicit: bool) -> bool:
    """
    pre: 1 <= n1 <= 300000 and 1 <= n2 <= 300000
    post: False
    """
    return chunk_fft_length(n1, n2, explicit)
