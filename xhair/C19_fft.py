"""CrossHair contract for C19: within one chunk of the command line's worker pool the same settings object is handed to
every file, so the FFT length prepared for a file must not depend on the files processed before it."""
import importlib
import os
import sys
import types
import warnings

REPO = os.environ.get("HVSRPY_REPO", "/repo")
warnings.simplefilter("ignore")
if "hvsrpy" not in sys.modules:
    _pkg = types.ModuleType("hvsrpy")
    _pkg.__path__ = [os.path.join(REPO, "hvsrpy")]
    sys.modules["hvsrpy"] = _pkg
P = importlib.import_module("hvsrpy.processing")


class _TS:
    def __init__(self, n):
        self.n_samples = n
        self.dt_in_seconds = 0.01


class _Rec:
    def __init__(self, n):
        self.ns = self.ew = self.vt = _TS(n)


class _Settings:
    def __init__(self, fft=None):
        self.fft_settings = fft


import copy
# what the worker hands to the library for the settings object of its chunk - established by harness/C19.py (run_dataflow) on the
# real cli._process_hvsr: the chunk's own object ("0") or a private copy per file ("1")
WORKER_COPIES = os.environ.get("XH_WORKER_COPIES", "0") == "1"


def chunk_fft_length(n1: int, n2: int) -> bool:
    """
    a file of n2 samples handled after a file of n1 samples in the same chunk gets the FFT length it gets alone
    pre: 1 <= n1 <= 300000 and 1 <= n2 <= 300000
    post: _
    """
    shared = _Settings(None)
    P.prepare_fft_settings([_Rec(n1)], copy.deepcopy(shared) if WORKER_COPIES else shared)
    second = copy.deepcopy(shared) if WORKER_COPIES else shared
    P.prepare_fft_settings([_Rec(n2)], second)
    shared = second
    alone = _Settings(None)
    P.prepare_fft_settings([_Rec(n2)], alone)
    return shared.fft_settings["n"] == alone.fft_settings["n"]


def chunk_fft_length_reach(n1: int, n2: int) -> bool:
    """
    pre: 1 <= n1 <= 300000 and 1 <= n2 <= 300000
    post: False
    """
    return chunk_fft_length(n1, n2)
