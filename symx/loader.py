"""Imports /repo/hvsrpy/*.py from the working-tree source with the proxies in sys.modules.

Nothing of hvsrpy is edited or copied: the modules are imported from REPO at every run (every
process), under a private package object so that hvsrpy/__init__.py (obspy, matplotlib, ...) is not
executed unless a harness asks for it.
"""
import builtins
import hashlib
import importlib
import inspect
import os
import sys
import types

import numpy as np

from . import models, symnp as _symnp
from .core import Sym, CSym, Unsupported

REPO = os.environ.get("HVSRPY_REPO", "/repo")


class Recorder:
    """Stand-in for drawing / table / display libraries: accepts anything, logs every call."""

    def __init__(self, name="rec", log=None):
        object.__setattr__(self, "_name", name)
        object.__setattr__(self, "_log", log if log is not None else [])
        object.__setattr__(self, "_attrs", {})

    def __getattr__(self, k):
        if k.startswith("__") and k.endswith("__"):
            raise AttributeError(k)
        a = self._attrs
        if k not in a:
            if k in ("get_ylim", "get_xlim"):
                # the few getters whose value the code computes with return numbers
                return lambda *args, **kw: (self._log.append((self._name + "." + k, args, kw, None)), (0.0, 7.3) if k == "get_ylim" else (0.1, 50.0))[1]
            a[k] = Recorder(self._name + "." + k, self._log)
        return a[k]

    def __setattr__(self, k, v):
        self._attrs[k] = v

    def __call__(self, *args, **kw):
        r = Recorder(self._name + "()", self._log)
        self._log.append((self._name, args, kw, r))
        return r

    def __iter__(self):
        return iter([Recorder(self._name + "[0]", self._log), Recorder(self._name + "[1]", self._log)])

    def __getitem__(self, k):
        return Recorder(f"{self._name}[{k!r}]", self._log)

    def __setitem__(self, k, v):
        self._log.append((self._name + ".__setitem__", (k, v), {}, None))

    def __enter__(self):
        return self

    def __exit__(self, *a):
        return False

    def __mro_entries__(self, bases):
        return (object,)


class AxesRecorder(Recorder):
    """Recorder standing in for a matplotlib Axes: the few getters whose value the code computes with return numbers."""

    def get_ylim(self):
        self._log.append((self._name + ".get_ylim", (), {}, None))
        return (0.0, 7.3)

    def get_xlim(self):
        self._log.append((self._name + ".get_xlim", (), {}, None))
        return (0.1, 50.0)


def recorder_module(name, log):
    m = types.ModuleType(name)
    rec = Recorder(name, log)
    m.__getattr__ = lambda k: getattr(rec, k)
    m._rec = rec
    m.__path__ = []
    return m


def sym_float(v=0.0):
    if isinstance(v, Sym):
        return v
    return builtins.float(v)


def sym_int(v=0, *a):
    if isinstance(v, Sym):
        return v.__int__()
    return builtins.int(v, *a)


def sym_complex(*a):
    if any(isinstance(v, (Sym, CSym)) for v in a):
        re = a[0]
        im = a[1] if len(a) > 1 else 0
        return CSym(re, im)
    return builtins.complex(*a)


def source_hash(paths):
    h = hashlib.sha256()
    for p in sorted(paths):
        with open(p, "rb") as f:
            h.update(f.read())
    return h.hexdigest()[:16]


class Loaded:
    def __init__(self):
        self.mods = {}
        self.np = None
        self.logs = {}
        self.files = []

    def __getitem__(self, k):
        return self.mods[k]

    def functions_encoded(self, names):
        """qualified name + source hash for the evidence."""
        out = []
        for q in names:
            mod, _, attr = q.partition(".")
            obj = self.mods[mod]
            for part in attr.split("."):
                obj = getattr(obj, part)
            obj = getattr(obj, "__func__", obj)
            try:
                src = inspect.getsource(obj)
            except (OSError, TypeError):
                src = repr(obj)
            out.append({"name": "hvsrpy." + q, "sha": hashlib.sha256(src.encode()).hexdigest()[:12]})
        return out


def load(modules, find_peaks=models.find_peaks_model, tukey=models.sym_tukey, detrend=models.sym_detrend,
         butter=models.opaque_butter, sosfiltfilt=models.opaque_sosfiltfilt, real_fft=False,
         extra_fakes=None, symbolic_trig=True, shadow_builtins=True, shadow_int=False, opaque_fft=False, symbolic_pi=False):
    """Import the named hvsrpy submodules (and their intra-package dependencies) symbolically."""
    L = Loaded()
    fft = models.make_fft_module(opaque=opaque_fft) if not real_fft else np.fft
    snp = _symnp.make_symnp(fft=fft)
    _symnp.SymNP.symbolic_trig = symbolic_trig
    _symnp.SymNP.symbolic_pi = symbolic_pi
    L.np = snp
    fake = {"numpy": snp, "numpy.fft": fft}
    nrand = types.ModuleType("numpy.random")
    for k in ("default_rng", "PCG64", "MT19937", "BitGenerator", "Generator"):
        setattr(nrand, k, getattr(np.random, k))
    fake["numpy.random"] = nrand
    nb = types.ModuleType("numba")
    nb.njit = lambda *a, **k: (a[0] if a and callable(a[0]) else (lambda f: f))
    fake["numba"] = nb
    ss, ssw = models.make_signal_modules(find_peaks=find_peaks, tukey=tukey, detrend=detrend,
                                         butter=butter, sosfiltfilt=sosfiltfilt)
    fake["scipy.signal"] = ss
    fake["scipy.signal.windows"] = ssw
    for name in ("matplotlib", "matplotlib.pyplot", "matplotlib.widgets", "matplotlib.cm", "mpl_toolkits",
                 "mpl_toolkits.mplot3d", "mpl_toolkits.axes_grid1", "pandas", "IPython", "IPython.display",
                 "termcolor", "obspy", "click", "shapely", "shapely.geometry", "scipy.spatial", "scipy.stats"):
        log = L.logs.setdefault(name.split(".")[0], [])
        fake[name] = recorder_module(name, log)
    fake["termcolor"].colored = lambda s, *a, **k: s
    if extra_fakes:
        fake.update(extra_fakes)
    saved = {k: sys.modules.get(k) for k in fake}
    saved_hv = {k: v for k, v in sys.modules.items() if k == "hvsrpy" or k.startswith("hvsrpy.")}
    for k in saved_hv:
        del sys.modules[k]
    # scipy must be importable as a package for "from scipy import stats"
    import scipy  # noqa
    saved_attr = {}
    for nm in ("signal", "spatial", "stats"):
        saved_attr[nm] = getattr(scipy, nm, None)
    sys.modules.update(fake)
    scipy.signal = ss
    scipy.stats = fake["scipy.stats"]
    scipy.spatial = fake["scipy.spatial"]
    pkg = types.ModuleType("hvsrpy")
    pkg.__path__ = [os.path.join(REPO, "hvsrpy")]
    pkg.__file__ = os.path.join(REPO, "hvsrpy", "__init__.py")
    sys.modules["hvsrpy"] = pkg
    sys.dont_write_bytecode = True
    try:
        for name in modules:
            if name == "sesame":
                hc = importlib.import_module("hvsrpy.hvsr_curve")
                pkg.HvsrCurve = hc.HvsrCurve
            importlib.import_module("hvsrpy." + name)
        for k, v in list(sys.modules.items()):
            if k.startswith("hvsrpy."):
                short = k[len("hvsrpy."):]
                L.mods[short] = v
                if getattr(v, "__file__", None):
                    L.files.append(v.__file__)
                if shadow_builtins:
                    v.__dict__["float"] = sym_float
                    if shadow_int:
                        v.__dict__["int"] = sym_int
                    v.__dict__["complex"] = sym_complex
    finally:
        for k in list(sys.modules):
            if k == "hvsrpy" or k.startswith("hvsrpy."):
                del sys.modules[k]
        sys.modules.update(saved_hv)
        for k, v in saved.items():
            if v is None:
                sys.modules.pop(k, None)
            else:
                sys.modules[k] = v
        for nm, v in saved_attr.items():
            if v is not None:
                setattr(scipy, nm, v)
    L.pkg = pkg
    L.source_hash = source_hash(L.files)
    return L


def lower_fft_floor(L, floor=2):
    """BOUND: processing.nextpow2's floor of 2**15 is lowered by wrapping the real function."""
    P = L["processing"]
    real = P.nextpow2
    if getattr(real, "_verif_wrapped", False):
        real = real._verif_real
    def nextpow2(n, minimum_power_of_two=floor):
        return real(n, minimum_power_of_two)
    nextpow2._verif_wrapped = True
    nextpow2._verif_real = real
    P.nextpow2 = nextpow2
