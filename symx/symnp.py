"""numpy proxy used while the real hvsrpy source runs symbolically.

Everything is forwarded to the real numpy, except (a) float allocations (object arrays instead),
(b) element functions numpy cannot apply to objects, (c) np.fft / np.random (models.py).
Arrays stay *real* numpy object arrays: slicing / view / copy / in-place semantics are numpy's own.
"""
import types

import numpy as np
import z3

from .core import Sym, SymBool, CSym, Ctx, Rad, cosd, sind, qval, is_nan, Unsupported, UF_POW10, UF_LOG10


def _is_symobj(a):
    return isinstance(a, np.ndarray) and a.dtype == object


def _has_sym(a):
    if isinstance(a, (Sym, CSym, SymBool)):
        return True
    if isinstance(a, np.ndarray):
        if a.dtype != object:
            return False
        return any(isinstance(v, (Sym, CSym, SymBool)) for v in a.flat)
    if isinstance(a, (list, tuple)):
        return any(_has_sym(v) for v in a)
    return False


def _obj(shape, fill=None):
    a = np.empty(shape, dtype=object)
    if fill is not None:
        a[...] = fill
    return a


def _nd(dtype):
    """builtins shadowed in the loaded modules (float/int passing symbolic values through) used as a dtype"""
    n = getattr(dtype, "__name__", "")
    if n in ("sym_int", "to_int"):
        return int
    if n in ("sym_float", "to_float"):
        return float
    return dtype


_FLOATY = (None, float, np.double, np.float64, np.float32, "float", "float64", "double")


def _floaty(dtype):
    try:
        return dtype in _FLOATY or np.dtype(dtype).kind == "f"
    except TypeError:
        return False


def _unary(name, real, symf):
    def f(self, a, *k, **kw):
        if isinstance(a, (Sym, CSym)):
            return symf(a)
        if isinstance(a, Rad):
            return symf(a)
        if isinstance(a, np.ndarray) and a.dtype == object:
            g = lambda v: symf(v) if isinstance(v, (Sym, CSym, Rad)) else (v if is_nan(v) else real(float(v)))
            out = np.frompyfunc(g, 1, 1)(a)
            return out if isinstance(out, np.ndarray) and out.shape else (out.item() if isinstance(out, np.ndarray) else out)
        return real(a, *k, **kw)
    f.__name__ = name
    return f


class SymNP(types.ModuleType):
    """See module docstring."""

    def __getattr__(self, name):
        if name == "pi" and SymNP.symbolic_pi and Ctx.cur is not None:
            v = z3.Real("pi")
            Ctx.cur.assume(z3.And(v > z3.RealVal("3.14159265358979"), v < z3.RealVal("3.14159265358980")))
            return Sym(v)
        return getattr(np, name)

    # ---- allocation
    def empty(self, shape, dtype=None, **kw):
        dtype = _nd(dtype)
        return _obj(shape) if _floaty(dtype) else np.empty(shape, dtype=dtype)

    def zeros(self, shape, dtype=None, **kw):
        dtype = _nd(dtype)
        return _obj(shape, 0) if _floaty(dtype) else np.zeros(shape, dtype=dtype)

    def ones(self, shape, dtype=None, **kw):
        dtype = _nd(dtype)
        return _obj(shape, 1) if _floaty(dtype) else np.ones(shape, dtype=dtype)

    def full(self, shape, fill_value, dtype=None, **kw):
        return _obj(shape, fill_value) if _floaty(dtype) else np.full(shape, fill_value, dtype=dtype)

    def empty_like(self, a, dtype=None, **kw):
        a = np.asarray(a)
        if dtype is None and (a.dtype == object or a.dtype.kind == "f"):
            return _obj(a.shape)
        return np.empty_like(a, dtype=dtype)

    def zeros_like(self, a, dtype=None, **kw):
        a = np.asarray(a)
        if dtype is None and (a.dtype == object or a.dtype.kind == "f"):
            return _obj(a.shape, 0)
        return np.zeros_like(a, dtype=dtype)

    def ones_like(self, a, dtype=None, **kw):
        a = np.asarray(a)
        if dtype is None and (a.dtype == object or a.dtype.kind == "f"):
            return _obj(a.shape, 1)
        return np.ones_like(a, dtype=dtype)

    def full_like(self, a, fill_value, dtype=None, **kw):
        a = np.asarray(a)
        if dtype is None and (a.dtype == object or a.dtype.kind == "f"):
            return _obj(a.shape, fill_value)
        return np.full_like(a, fill_value, dtype=dtype)

    def array(self, x, dtype=None, **kw):
        dtype = _nd(dtype)
        if dtype is not None and _floaty(dtype) and SymNP.force_object and Ctx.cur is not None and not _has_sym(x):
            # explicit float conversion while executing symbolically: keep an object array (of python floats) so that
            # later in-place updates with symbolic operands (amplitude *= taper) keep working; copy semantics as np.array
            a = np.array(x, dtype=dtype, **kw)
            return a.astype(object)
        if _floaty(dtype) and _has_sym(x):
            a = np.array(x, dtype=object, **{k: v for k, v in kw.items() if k != "copy"})
            for v in a.flat:
                if not isinstance(v, (Sym, CSym, int, float, np.number)):
                    raise ValueError("could not convert to numeric array")
            return a
        return np.array(x, dtype=dtype, **kw)

    def asarray(self, x, dtype=None, **kw):
        if _floaty(dtype) and _has_sym(x):
            return x if _is_symobj(x) else np.array(x, dtype=object)
        return np.asarray(x, dtype=dtype, **kw)

    def atleast_2d(self, a):
        return np.atleast_2d(a)

    # ---- predicates / selection
    def isnan(self, a, *k, **kw):
        if isinstance(a, (Sym, CSym)):
            return False
        if isinstance(a, np.ndarray) and a.dtype == object:
            return np.frompyfunc(lambda v: is_nan(v), 1, 1)(a).astype(bool)
        return np.isnan(a)

    def isfinite(self, a, *k, **kw):
        if isinstance(a, (Sym, CSym)):
            return True
        if isinstance(a, np.ndarray) and a.dtype == object:
            return np.frompyfunc(lambda v: isinstance(v, Sym) or bool(np.isfinite(v)), 1, 1)(a).astype(bool)
        return np.isfinite(a)

    def argsort(self, a, axis=-1, kind=None, *k, **kw):
        """np.argsort; with the default (or another unstable) kind the order among EQUAL keys is unspecified by numpy's
        documentation (introsort happens to be stable only for short arrays), so for concrete numeric keys with ties the
        stand-in returns a permutation that is allowed by the contract and differs from the stable one: every run of equal
        keys reversed.  Code that relies on tie order under the default kind is thereby exposed at small sizes; the replay
        on the real library (with a long enough list) decides whether it is a violation."""
        try:
            arr = np.asarray(a)
            if kind in (None, "quicksort", "heapsort") and arr.ndim == 1 and arr.dtype.kind in "fiu" and arr.size > 1 and not k and not kw:
                idx = np.argsort(arr, kind="stable")
                out, i = [], 0
                while i < len(idx):
                    j = i
                    while j + 1 < len(idx) and arr[idx[j + 1]] == arr[idx[i]]:
                        j += 1
                    out.extend(reversed(idx[i:j + 1].tolist()))
                    i = j + 1
                return np.array(out, dtype=idx.dtype)
        except (TypeError, ValueError):
            pass
        return np.argsort(a, axis, kind, *k, **kw)

    def where(self, c, *ab):
        if not ab:
            return np.where(np.asarray(c).astype(bool) if _is_symobj(np.asarray(c)) else c)
        a, b = ab
        carr = np.asarray(c)
        if carr.dtype != object:
            if _has_sym(a) or _has_sym(b):
                a = np.asarray(a, dtype=object)
                b = np.asarray(b, dtype=object)
            return np.where(carr, a, b)

        def f(cc, aa, bb):
            if isinstance(cc, SymBool):
                if isinstance(aa, Sym) or isinstance(bb, Sym):
                    return Sym(z3.If(cc.e, Sym.lift(aa), Sym.lift(bb)))
                return aa if bool(cc) else bb
            return aa if cc else bb
        return np.frompyfunc(f, 3, 1)(carr, a, b)

    def argmax(self, a, axis=None, *k, **kw):
        a = np.asarray(a)
        if a.dtype != object:
            return np.argmax(a, axis, *k, **kw)
        if a.ndim > 1:
            if axis is None:
                return self.argmax(a.ravel())
            return np.apply_along_axis(lambda v: self.argmax(v), axis, a).astype(int)
        best = 0
        for i in range(1, len(a)):
            if a[i] > a[best]:      # forks; first maximum wins, as numpy
                best = i
        return best

    def argmin(self, a, axis=None, *k, **kw):
        a = np.asarray(a)
        if a.dtype != object:
            return np.argmin(a, axis, *k, **kw)
        if a.ndim > 1:
            if axis is None:
                return self.argmin(a.ravel())
            return np.apply_along_axis(lambda v: self.argmin(v), axis, a).astype(int)
        best = 0
        for i in range(1, len(a)):
            if a[i] < a[best]:
                best = i
        return best

    def maximum(self, a, b):
        if _has_sym(a) or _has_sym(b):
            return self.where(np.asarray(a, dtype=object) >= np.asarray(b, dtype=object), a, b)
        return np.maximum(a, b)

    def minimum(self, a, b):
        if _has_sym(a) or _has_sym(b):
            return self.where(np.asarray(a, dtype=object) <= np.asarray(b, dtype=object), a, b)
        return np.minimum(a, b)

    # ---- element functions
    def abs(self, a, *k, **kw):
        if isinstance(a, (Sym, CSym)):
            return abs(a)
        if isinstance(a, np.ndarray) and a.dtype == object:
            return np.frompyfunc(lambda v: v if is_nan(v) else abs(v), 1, 1)(a)
        return np.abs(a, *k, **kw)

    absolute = abs

    def real(self, a):
        if isinstance(a, (Sym, CSym)):
            return a.real
        if isinstance(a, np.ndarray) and a.dtype == object:
            return np.frompyfunc(lambda v: v.real if isinstance(v, (Sym, CSym)) else np.real(v), 1, 1)(a)
        return np.real(a)

    def imag(self, a):
        if isinstance(a, (Sym, CSym)):
            return a.imag
        if isinstance(a, np.ndarray) and a.dtype == object:
            return np.frompyfunc(lambda v: v.imag if isinstance(v, (Sym, CSym)) else np.imag(v), 1, 1)(a)
        return np.imag(a)

    def conjugate(self, a):
        if isinstance(a, (Sym, CSym)):
            return a.conjugate()
        if isinstance(a, np.ndarray) and a.dtype == object:
            return np.frompyfunc(lambda v: v.conjugate() if isinstance(v, (Sym, CSym)) else np.conjugate(v), 1, 1)(a)
        return np.conjugate(a)

    conj = conjugate

    def radians(self, x):
        if SymNP.symbolic_trig and isinstance(x, Sym):
            return Rad(x.e)          # symbolic angle: cos/sin become cosd/sind of the degree expression
        return np.radians(x)         # concrete angle: its float cosine/sine is read as a real constant

    deg2rad = radians

    def power(self, base, ex):
        if isinstance(ex, Sym) or isinstance(base, Sym):
            if not isinstance(base, Sym) and base == 10:
                return Sym(UF_POW10(z3.simplify(ex.e)))
            if isinstance(base, Sym):
                return base ** ex
            raise Unsupported("power")
        return np.power(base, ex)

    def round(self, a, *k, **kw):
        if _has_sym(a):
            raise Unsupported("np.round on symbolic values")
        return np.round(a, *k, **kw)

    def _isclose_sym(self, a, b, rtol=1e-5, atol=1e-8, equal_nan=False):
        """numpy's documented definition |a - b| <= atol + rtol * |b| over the reals, element by element (a condition the solver forks on)"""
        def one(x, y):
            if is_nan(x) or is_nan(y):
                return bool(equal_nan and is_nan(x) and is_nan(y))
            if not isinstance(x, (Sym, SymBool)) and not isinstance(y, (Sym, SymBool)):
                return bool(np.isclose(float(x), float(y), rtol=rtol, atol=atol))
            x, y = Sym(Sym.lift(x)), Sym(Sym.lift(y))
            return abs(x - y) <= Sym(qval(atol)) + Sym(qval(rtol)) * abs(y)
        if any(isinstance(v, CSym) for v in list(np.asarray(a, dtype=object).flat) + list(np.asarray(b, dtype=object).flat)):
            raise Unsupported("np.isclose on symbolic complex values")
        return np.frompyfunc(one, 2, 1)(np.asarray(a, dtype=object), np.asarray(b, dtype=object))

    def allclose(self, a, b, *k, **kw):
        if _has_sym(a) or _has_sym(b):
            out = True
            for c in np.atleast_1d(np.asarray(self._isclose_sym(a, b, *k, **kw), dtype=object)).flat:
                out = c & out if isinstance(c, SymBool) else (out if c else False)
            return out
        return np.allclose(np.asarray(a, dtype=float), np.asarray(b, dtype=float), *k, **kw)

    def isclose(self, a, b, *k, **kw):
        if _has_sym(a) or _has_sym(b):
            return self._isclose_sym(a, b, *k, **kw)
        return np.isclose(np.asarray(a, dtype=float), np.asarray(b, dtype=float), *k, **kw)

    def finfo(self, dtype):
        try:
            return np.finfo(dtype)
        except ValueError:
            return np.finfo(float)        # object arrays stand for float64 storage

    def cov(self, m, y=None, rowvar=True, bias=False, ddof=None, fweights=None, aweights=None, **kw):
        if (_has_sym(m) or _has_sym(y)) and aweights is None and fweights is None:
            # numpy's own cov code, routed through the aweights branch (np.average(returned=True)
            # fails on object arrays); aweights = ones and ddof=1 give the identical n-1 normalisation.
            n = np.asarray(m).shape[-1]
            if ddof not in (None, 1) or bias:
                raise Unsupported("np.cov ddof")
            return np.cov(m, y, rowvar=rowvar, aweights=np.ones(n), ddof=1, **kw)
        return np.cov(m, y, rowvar=rowvar, bias=bias, ddof=ddof, fweights=fweights, aweights=aweights, **kw)

    def arctan2(self, y, x, *a, **kw):
        ya, xa = np.asarray(y), np.asarray(x)
        if ya.dtype != object and xa.dtype != object:
            return np.arctan2(y, x, *a, **kw)
        from .core import Angle, qval
        lift = lambda v: v if isinstance(v, Sym) else Sym(qval(float(v)))
        out = np.frompyfunc(lambda p, q: Angle(lift(p), lift(q)), 2, 1)(ya, xa)
        return out

    def sign(self, a, *k, **kw):
        if isinstance(a, Sym):
            return a.sign()
        if isinstance(a, np.ndarray) and a.dtype == object:
            return np.frompyfunc(lambda v: v.sign() if isinstance(v, Sym) else float(np.sign(v)), 1, 1)(a)
        return np.sign(a, *k, **kw)

    symbolic_trig = True
    force_object = True
    symbolic_pi = True


def _cos(v):
    if isinstance(v, Rad):
        return cosd(v.deg)
    raise Unsupported("cos of non-angle symbolic value")


def _sin(v):
    if isinstance(v, Rad):
        return sind(v.deg)
    if isinstance(v, Sym):
        return v.sin()
    raise Unsupported("sin of non-angle symbolic value")


SymNP.log = _unary("log", np.log, lambda v: v.log())
SymNP.exp = _unary("exp", np.exp, lambda v: v.exp())
SymNP.sqrt = _unary("sqrt", np.sqrt, lambda v: v.sqrt())
SymNP.log10 = _unary("log10", np.log10, lambda v: v.log10())
SymNP.cos = _unary("cos", np.cos, _cos)
SymNP.sin = _unary("sin", np.sin, _sin)
SymNP.square = _unary("square", np.square, lambda v: v * v)


def make_symnp(fft=None, random=None):
    m = SymNP("numpy")
    if fft is not None:
        m.fft = fft
    if random is not None:
        m.random = random
    return m
