"""Runs one CrossHair condition (a function with a PEP316 contract in xhair/*.py) and classifies the verdict."""
import ast
import os
import re
import subprocess
import sys
import time

ROOT = os.path.dirname(os.path.dirname(os.path.abspath(__file__)))


def line_of(path, func):
    tree = ast.parse(open(path).read())
    for n in ast.walk(tree):
        if isinstance(n, ast.FunctionDef) and n.name == func:
            return n.body[0].lineno if n.body else n.lineno
    raise KeyError(func)


def run_condition(relpath, func, timeout_s=40, extra_env=None):
    """-> dict(status=confirmed|refuted|inconclusive|error, message, counterexample, wall_s)"""
    path = os.path.join(ROOT, relpath)
    ln = line_of(path, func)
    env = dict(os.environ)
    env["PYTHONDONTWRITEBYTECODE"] = "1"
    env["PYTHONPATH"] = ROOT
    env["PYTHONWARNINGS"] = "ignore"
    if extra_env:
        env.update(extra_env)
    t0 = time.time()
    try:
        out = subprocess.run([sys.executable, "-m", "crosshair", "check", "--report_all", "--per_condition_timeout", str(timeout_s),
                              f"{path}:{ln}"], cwd=ROOT, env=env, capture_output=True, text=True, timeout=timeout_s * 3 + 60)
        text = out.stdout + out.stderr
    except subprocess.TimeoutExpired:
        return {"status": "inconclusive", "message": "crosshair process timed out", "counterexample": None, "wall_s": time.time() - t0}
    res = {"status": "inconclusive", "message": text.strip()[-400:], "counterexample": None, "wall_s": round(time.time() - t0, 1)}
    if "Confirmed over all paths" in text:
        res["status"] = "confirmed"
    else:
        m = re.search(r"error: (.*?) when calling (\w+)\((.*?)\)(?: \(which (.*?)\))?\s*$", text, re.M)
        if m:
            res["status"] = "refuted"
            res["counterexample"] = {"what": m.group(1), "func": m.group(2), "args": m.group(3), "result": m.group(4)}
        elif "Not confirmed" in text or "Unable to meet precondition" in text:
            res["status"] = "inconclusive"
        elif out.returncode not in (0, 1):
            res["status"] = "error"
    return res


def crosshair_obligation(rep, relpath, func, twin=None, timeout_s=40, key=None, replay_kind="crosshair", extra_env=None):
    """One obligation decided by CrossHair, plus its reachability twin (post: False must be refuted)."""
    r = run_condition(relpath, func, timeout_s, extra_env=extra_env)
    rep.obligations += 1
    rep.paths += 1
    rep.completed += 1
    rep.solver_ms += r["wall_s"] * 1000
    if r["status"] == "confirmed":
        rep.discharged += 1
    elif r["status"] == "refuted":
        ce = r["counterexample"]
        rep.candidate({"kind": replay_kind, "file": relpath, "func": func, "args": ce["args"], "what": ce["what"], "env": extra_env or {}},
                      f"CrossHair counterexample for {func}({ce['args']}): {ce['what']}", key=key or f"crosshair:{func}")
    else:
        rep.inconclusive.append(f"CrossHair {func}: {r['status']} ({r['message'][-160:]})")
    if twin:
        t = run_condition(relpath, twin, timeout_s, extra_env=extra_env)
        rep.obligations += 1
        if t["status"] == "refuted":
            rep.discharged += 1          # the assertion is reachable: the contract above is not vacuous
            rep.reach_ok += 1
        else:
            rep.inconclusive.append(f"reachability twin {twin} was not refuted ({t['status']}): contract may be vacuous")
    rep.sample({"crosshair": func, "verdict": r["status"], "wall_s": r["wall_s"]})
    return r


def replay_counterexample(spec):
    """Re-run the contract function concretely on CrossHair's counterexample (clean process, real library)."""
    import importlib.util
    os.environ.update(spec.get("env") or {})
    path = os.path.join(ROOT, spec["file"])
    sp = importlib.util.spec_from_file_location("xh_replay_mod", path)
    mod = importlib.util.module_from_spec(sp)
    sp.loader.exec_module(mod)
    fn = getattr(mod, spec["func"])
    args = eval("(" + spec["args"] + ",)", {"nan": float("nan"), "inf": float("inf")})   # literals printed by CrossHair
    try:
        got = fn(*args)
    except Exception as e:   # noqa
        return {"reproduced": True, "detail": f"{spec['func']}{args} raised {type(e).__name__}: {e}"}
    doc = fn.__doc__ or ""
    post = [l.split("post:", 1)[1].strip() for l in doc.splitlines() if l.strip().startswith("post:")]
    ok = True
    names = dict(zip(fn.__code__.co_varnames[:fn.__code__.co_argcount], args))
    for p in post:
        ok = ok and bool(eval(p, {**vars(mod), **names, "_": got, "__return__": got}))
    return {"reproduced": not ok, "detail": f"{spec['func']}{args} returned {got!r}; postcondition {'violated' if not ok else 'holds'}"}


def real_hvsrpy():
    """import the real package (the CrossHair contract files install a bare package shell named hvsrpy in sys.modules)."""
    import importlib
    m = sys.modules.get("hvsrpy")
    if m is not None and not hasattr(m, "HvsrCurve"):
        for k in [k for k in sys.modules if k == "hvsrpy" or k.startswith("hvsrpy.")]:
            del sys.modules[k]
    return importlib.import_module("hvsrpy")
