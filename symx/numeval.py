"""Numeric evaluation of z3 terms with the *true* functions substituted for the uninterpreted
symbols (mag -> hypot, sqrt, exp, log, cosd, sind, log10, pow10, sin).  Used by the concolic
cross-check: symbolic result evaluated at a path's witness == unshimmed library run on that witness."""
import fractions
import math

import z3

_UF = {
    "sqrt": lambda a: math.sqrt(a) if a >= 0 else float("nan"),
    "exp": math.exp,
    "log": lambda a: math.log(a) if a > 0 else float("nan"),
    "mag": math.hypot,
    "cosd": lambda a: math.cos(math.radians(a)),
    "sind": lambda a: math.sin(math.radians(a)),
    "log10": lambda a: math.log10(a) if a > 0 else float("nan"),
    "pow10": lambda a: 10.0 ** a,
    "sin": math.sin,
}


class CannotEvaluate(Exception):
    pass


def numeval(t, env, extra_uf=None, cache=None):
    """env: name -> float for the free constants.  Returns float or bool."""
    cache = {} if cache is None else cache
    uf = dict(_UF)
    if extra_uf:
        uf.update(extra_uf)

    def ev(x):
        k = x.get_id()
        if k in cache:
            return cache[k]
        r = _ev(x)
        cache[k] = r
        return r

    def _ev(x):
        if z3.is_rational_value(x):
            return x.numerator_as_long() / x.denominator_as_long()
        if z3.is_int_value(x):
            return x.as_long()
        if z3.is_algebraic_value(x):
            return float(x.approx(20).as_fraction())
        if z3.is_true(x):
            return True
        if z3.is_false(x):
            return False
        d = x.decl()
        kind = d.kind()
        ch = x.children()
        if kind == z3.Z3_OP_UNINTERPRETED:
            name = d.name()
            if not ch:
                if name == "pi":
                    return math.pi
                if name == "sqrt_half":
                    return math.sqrt(0.5)
                if name not in env:
                    raise CannotEvaluate(f"no value for {name}")
                return env[name]
            if name in uf:
                try:
                    return uf[name](*[ev(c) for c in ch])
                except OverflowError:
                    return float("inf")
            raise CannotEvaluate(f"uninterpreted function {name}")
        if kind == z3.Z3_OP_ADD:
            return math.fsum(ev(c) for c in ch)
        if kind == z3.Z3_OP_MUL:
            out = 1.0
            for c in ch:
                out *= ev(c)
            return out
        if kind == z3.Z3_OP_SUB:
            out = ev(ch[0])
            for c in ch[1:]:
                out -= ev(c)
            return out
        if kind == z3.Z3_OP_UMINUS:
            return -ev(ch[0])
        if kind in (z3.Z3_OP_DIV, z3.Z3_OP_IDIV):
            a, b = ev(ch[0]), ev(ch[1])
            if b == 0:
                return float("nan")
            return a / b if kind == z3.Z3_OP_DIV else a // b
        if kind == z3.Z3_OP_ITE:
            return ev(ch[1]) if ev(ch[0]) else ev(ch[2])
        if kind == z3.Z3_OP_TO_REAL:
            return float(ev(ch[0]))
        if kind == z3.Z3_OP_TO_INT:
            return math.floor(ev(ch[0]))
        if kind == z3.Z3_OP_LE:
            return ev(ch[0]) <= ev(ch[1])
        if kind == z3.Z3_OP_LT:
            return ev(ch[0]) < ev(ch[1])
        if kind == z3.Z3_OP_GE:
            return ev(ch[0]) >= ev(ch[1])
        if kind == z3.Z3_OP_GT:
            return ev(ch[0]) > ev(ch[1])
        if kind == z3.Z3_OP_EQ:
            return ev(ch[0]) == ev(ch[1])
        if kind == z3.Z3_OP_DISTINCT:
            vals = [ev(c) for c in ch]
            return len(set(vals)) == len(vals)
        if kind == z3.Z3_OP_AND:
            return all(ev(c) for c in ch)
        if kind == z3.Z3_OP_OR:
            return any(ev(c) for c in ch)
        if kind == z3.Z3_OP_NOT:
            return not ev(ch[0])
        if kind == z3.Z3_OP_IMPLIES:
            return (not ev(ch[0])) or ev(ch[1])
        if kind == z3.Z3_OP_POWER:
            return ev(ch[0]) ** ev(ch[1])
        raise CannotEvaluate(f"operator {d.name()}")

    return ev(t)


def env_from_model(m, names=None, extra_terms=()):
    """name -> float for every constant the model interprets (Reals/Ints/Bools)."""
    env = {}
    for d in m.decls():
        if d.arity() != 0:
            continue
        v = m[d]
        try:
            if z3.is_rational_value(v):
                env[d.name()] = float(fractions.Fraction(v.numerator_as_long(), v.denominator_as_long()))
            elif z3.is_algebraic_value(v):
                env[d.name()] = float(v.approx(20).as_fraction())
            elif z3.is_int_value(v):
                env[d.name()] = v.as_long()
            elif z3.is_true(v):
                env[d.name()] = True
            elif z3.is_false(v):
                env[d.name()] = False
        except Exception:
            pass
    return env


class DefaultEnv(dict):
    """Free constants the model does not mention are unconstrained: default them."""

    def __init__(self, base, default=0.0):
        super().__init__(base)
        self.default = default

    def __contains__(self, k):
        return True

    def __missing__(self, k):
        return self.default
