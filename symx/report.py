"""Per-instance bookkeeping of obligations, candidates (solver witnesses) and concolic validations."""
import json
import time

import z3

from .core import Ctx, Exploration, explore, model_value, PathAbort
from .numeval import numeval, env_from_model, DefaultEnv, CannotEvaluate


class InstanceReport:
    def __init__(self, name):
        self.name = name
        self.t0 = time.time()
        self.paths = 0
        self.completed = 0
        self.aborted = {}
        self.exhausted = True
        self.branch_checks = 0
        self.decisions = 0
        self.solver_ms = 0.0
        self.obligations = 0
        self.discharged = 0
        self.inconclusive = []     # notes
        self.candidates = []       # replay specs (dict) - solver witnesses of a negated obligation
        self.validations = []      # replay specs for the concolic cross-check
        self.samples = []
        self.reach_ok = 0          # reachability witnesses (path condition sat)
        self.notes = []
        self.errors = []

    # ---- exploration wrapper
    def explore(self, fn, max_paths=300, timeout_ms=20000):
        st = Exploration()
        for ctx, res in explore(fn, max_paths=max_paths, timeout_ms=timeout_ms, stats=st):
            yield ctx, res
            self.solver_ms += 0
        self.paths += st.paths
        self.completed += st.completed
        for k, v in st.aborted.items():
            self.aborted[k] = self.aborted.get(k, 0) + v
        self.exhausted = self.exhausted and st.exhausted
        self.branch_checks += st.branch_checks
        self.decisions += st.decisions
        self.solver_ms += st.solver_ms
        if st.unknown_branches:
            self.inconclusive.append(f"{st.unknown_branches} branch feasibility checks returned unknown")
        if not st.exhausted:
            self.inconclusive.append(f"path budget {max_paths} exhausted before all paths were visited")

    # ---- obligations
    def prove(self, ctx, label, negated, witness=None, timeout_ms=None, key=None):
        """negated: z3 Bool (or list, OR-ed) whose unsatisfiability under the path condition is the
        obligation.  witness(model) -> replay spec (dict) or None.  Returns 'unsat'|'sat'|'unknown'."""
        if isinstance(negated, (list, tuple)):
            negated = z3.Or(*negated) if len(negated) != 1 else negated[0]
        self.obligations += 1
        n0, t0 = ctx.n_checks, ctx.solver_ms
        if timeout_ms:
            ctx.solver.set("timeout", timeout_ms)
        r, m = ctx.model(negated)
        if timeout_ms:
            ctx.solver.set("timeout", ctx.timeout_ms)
        self.solver_ms += ctx.solver_ms - t0
        self.branch_checks += 0
        if r == z3.unsat:
            self.discharged += 1
            return "unsat"
        if r == z3.sat:
            spec = None
            if witness is not None:
                try:
                    spec = witness(m)
                except Exception as e:   # noqa
                    self.errors.append(f"{label}: witness construction failed: {type(e).__name__}: {e}")
            if spec is None:
                self.inconclusive.append(f"{label}: sat but no replayable witness")
            else:
                spec.setdefault("label", label)
                spec.setdefault("instance", self.name)
                if key:
                    spec.setdefault("key", key)
                self.candidates.append(spec)
            return "sat"
        self.inconclusive.append(f"{label}: solver returned unknown ({ctx.solver.reason_unknown()})")
        return "unknown"

    def reachable(self, ctx):
        """Vacuity guard: the path condition + assumptions must be satisfiable."""
        r = ctx.check()
        if r == z3.sat:
            self.reach_ok += 1
            return True
        self.inconclusive.append(f"path condition not confirmed satisfiable ({r})")
        return False

    def candidate(self, spec, label, key=None):
        """A violation candidate found without a query (e.g. the real code raised on a feasible path)."""
        spec.setdefault("label", label)
        spec.setdefault("instance", self.name)
        if key:
            spec.setdefault("key", key)
        self.candidates.append(spec)

    def sample(self, s):
        if len(self.samples) < 3:
            self.samples.append(s)

    def validation(self, spec):
        self.validations.append(spec)

    def result(self):
        return {
            "name": self.name, "paths": self.paths, "completed": self.completed, "aborted": self.aborted,
            "exhausted": self.exhausted, "branch_checks": self.branch_checks, "decisions": self.decisions,
            "solver_ms": round(self.solver_ms, 1), "obligations": self.obligations, "discharged": self.discharged,
            "inconclusive": self.inconclusive, "candidates": self.candidates, "validations": self.validations,
            "samples": self.samples, "reach_ok": self.reach_ok, "notes": self.notes, "errors": self.errors,
            "wall_s": round(time.time() - self.t0, 2),
        }


def witness_env(ctx, m):
    return DefaultEnv(env_from_model(m))


def pc_holds_numerically(ctx, env, tol=0.0):
    """Does the path condition hold at env with the true functions substituted for the UFs?"""
    try:
        for c in ctx.pc + ctx.assumptions:
            if not numeval(c, env):
                return False
    except (CannotEvaluate, OverflowError, ValueError, ZeroDivisionError):
        return False
    return True


def fl(x):
    """JSON-safe float."""
    x = float(x)
    if x != x:
        return "nan"
    return x


def concretiser(m):
    """x -> float: value of a Sym / number under model m with the true functions in place of the UFs
    (inputs created as exp(u) are concretised as math.exp(model(u)), not as the model's own 'exp')."""
    from .core import Sym, is_nan
    env = DefaultEnv(env_from_model(m))
    cache = {}

    def val(x):
        if x is None:
            return None
        if is_nan(x):
            return "nan"
        return fl(numeval(Sym.lift(x), env, cache=cache))
    val.env = env
    return val
