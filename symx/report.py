"""Per-instance bookkeeping of obligations, candidates (solver witnesses) and concolic validations."""
import json
import time

import z3

from .core import Ctx, Exploration, explore, model_value, PathAbort
from .numeval import numeval, env_from_model, DefaultEnv, CannotEvaluate


class InstanceReport:
    def __init__(self, name):
        self.name = name
        self.t0 = time.time()
        self.paths = 0
        self.completed = 0
        self.aborted = {}
        self.exhausted = True
        self.branch_checks = 0
        self.decisions = 0
        self.solver_ms = 0.0
        self.obligations = 0
        self.discharged = 0
        self.inconclusive = []     # notes
        self.candidates = []       # replay specs (dict) - solver witnesses of a negated obligation
        self.validations = []      # replay specs for the concolic cross-check
        self.samples = []
        self.reach_ok = 0          # reachability witnesses (path condition sat)
        self.unconfirmed_paths = 0
        self.notes = []
        self.errors = []
        self.soft_deadline = None     # wall-clock instant after which no new path is started (set by the driver)
        self.flush = None             # callable sending a partial result to the driver
        self._last_flush = time.time()

    # ---- exploration wrapper
    def explore(self, fn, max_paths=300, timeout_ms=20000):
        st = Exploration()
        for ctx, res in explore(fn, max_paths=max_paths, timeout_ms=timeout_ms, stats=st):
            # vacuity guard: a path reached through 'unknown' feasibility answers may be infeasible
            r = ctx.check()
            if r == z3.unsat:
                self.aborted["Infeasible(after-unknown)"] = self.aborted.get("Infeasible(after-unknown)", 0) + 1
                st.completed -= 1
                continue
            if r == z3.sat:
                self.reach_ok += 1
            else:
                self.unconfirmed_paths += 1
            yield ctx, res
            now = time.time()
            if self.flush is not None and now - self._last_flush > 10:
                self._last_flush = now
                try:
                    self.flush(self._partial(st))
                except Exception:
                    pass
            if self.soft_deadline is not None and now > self.soft_deadline and not st.exhausted:
                self.inconclusive.append(f"time budget of the instance reached after {st.paths} paths: exploration stopped (not exhaustive)")
                self.exhausted = False
                break
        self.paths += st.paths
        self.completed += st.completed
        for k, v in st.aborted.items():
            self.aborted[k] = self.aborted.get(k, 0) + v
        self.exhausted = self.exhausted and st.exhausted
        self.branch_checks += st.branch_checks
        self.decisions += st.decisions
        self.solver_ms += st.solver_ms
        if st.unknown_branches:
            self.inconclusive.append(f"{st.unknown_branches} branch feasibility checks returned unknown")
        if self.unconfirmed_paths:
            self.inconclusive.append(f"{self.unconfirmed_paths} path condition(s) not confirmed satisfiable (solver unknown)")
            self.unconfirmed_paths = 0
        if not st.exhausted and st.paths >= max_paths:
            self.inconclusive.append(f"path budget {max_paths} exhausted before all paths were visited")

    # ---- obligations
    def prove(self, ctx, label, negated, witness=None, timeout_ms=None, key=None, real=False, samplers=None, nlsat_first=False, shape=None):
        """negated: z3 Bool (or list, OR-ed) whose unsatisfiability under the path condition is the
        obligation.  witness(model) -> replay spec (dict) or None.  Returns 'unsat'|'sat'|'unknown'."""
        if isinstance(negated, (list, tuple)):
            negated = z3.Or(*negated) if len(negated) != 1 else negated[0]
        self.obligations += 1
        from .core import Settings as _S
        if _S.engine != "smt":
            # polynomial engines: one query, no uninterpreted symbols, the model (if any) is exact
            t0, keep_to = ctx.solver_ms, ctx.timeout_ms
            if timeout_ms:
                ctx.timeout_ms = timeout_ms
            try:
                r, m = ctx.model(negated)
            finally:
                ctx.timeout_ms = keep_to
            self.solver_ms += ctx.solver_ms - t0
            if r == z3.unsat:
                self.discharged += 1
                return "unsat"
            if r == z3.sat:
                spec = None
                try:
                    spec = witness(m) if witness is not None else None
                except Exception as e:   # noqa
                    self.errors.append(f"{label}: witness construction failed: {type(e).__name__}: {e}")
                if spec is None:
                    self.inconclusive.append(f"{label}: sat but no replayable witness")
                else:
                    spec.setdefault("label", label)
                    spec.setdefault("instance", self.name)
                    if key:
                        spec.setdefault("key", key)
                    self.candidates.append(spec)
                return "sat"
            self.inconclusive.append(f"{label}: solver returned unknown (engine {_S.engine})")
            return "unknown"
        if nlsat_first:
            t1 = time.time()
            r2 = nlsat_unsat(ctx.constraints() + [negated], timeout_ms or ctx.timeout_ms)
            self.solver_ms += (time.time() - t1) * 1000
            if r2 == "unsat":
                self.discharged += 1
                return "unsat"
        n0, t0 = ctx.n_checks, ctx.solver_ms
        if timeout_ms:
            ctx.solver.set("timeout", timeout_ms)
        r, m = ctx.model(negated)
        if timeout_ms:
            ctx.solver.set("timeout", ctx.timeout_ms)
        self.solver_ms += ctx.solver_ms - t0
        self.branch_checks += 0
        if r == z3.unsat:
            self.discharged += 1
            return "unsat"
        if r == z3.sat:
            spec = None
            if shape:
                # witness shaping: prefer a model whose inputs are exactly representable (dyadic) so that a boundary
                # equality found by the solver survives the conversion to floats
                t1 = time.time()
                r3, m3 = ctx.model(negated, *shape)
                self.solver_ms += (time.time() - t1) * 1000
                if r3 == z3.sat:
                    m = m3   # with real=True the shaped model is the starting point of real_witness (tried first, kept if it holds with the true functions)
            else:
                t1 = time.time()
                r3, m3 = shaped_model(ctx, negated)
                self.solver_ms += (time.time() - t1) * 1000
                if r3 == z3.sat:
                    m = m3
            if witness is not None:
                try:
                    env = None
                    if real:
                        cnt = self.__dict__.setdefault("_real_calls", {})
                        ck = (key or label, label)
                        cnt[ck] = cnt.get(ck, 0) + 1
                        if cnt[ck] <= 3:
                            env = real_witness(ctx, [negated], model=m, samplers=samplers, tries=1500)
                    spec = witness(env if env is not None else m)
                    if real and spec is not None:
                        spec["real_witness"] = env is not None
                except Exception as e:   # noqa
                    self.errors.append(f"{label}: witness construction failed: {type(e).__name__}: {e}")
            if spec is None:
                self.inconclusive.append(f"{label}: sat but no replayable witness")
            else:
                spec.setdefault("label", label)
                spec.setdefault("instance", self.name)
                if key:
                    spec.setdefault("key", key)
                self.candidates.append(spec)
            return "sat"
        # second engine for polynomial identities: abstract uninterpreted applications to fresh constants
        # (sound for unsat) and decide with nlsat
        t1 = time.time()
        r2, m2, nabs = nlsat_solve(ctx.constraints() + [negated], timeout_ms or ctx.timeout_ms)
        self.solver_ms += (time.time() - t1) * 1000
        if r2 == "unsat":
            self.discharged += 1
            return "unsat"
        if r2 == "sat" and m2 is not None and witness is not None:
            # a model of the abstraction is only a CANDIDATE (like every witness under uninterpreted symbols): the values of the
            # inputs are taken from it and the replay on the real library decides
            try:
                spec = witness(m2)
            except Exception as e:   # noqa
                spec = None
                self.errors.append(f"{label}: witness construction failed: {type(e).__name__}: {e}")
            if spec is not None:
                spec.setdefault("label", label)
                spec.setdefault("instance", self.name)
                if key:
                    spec.setdefault("key", key)
                self.candidates.append(spec)
                return "sat"
        self.inconclusive.append(f"{label}: solver returned unknown ({ctx.solver.reason_unknown()}; nlsat on the UF-abstraction: {r2})")
        return "unknown"

    def reachable(self, ctx):
        """Vacuity guard (performed by explore(): unsat paths are dropped, sat ones counted)."""
        return True

    def candidate(self, spec, label, key=None):
        """A violation candidate found without a query (e.g. the real code raised on a feasible path)."""
        spec.setdefault("label", label)
        spec.setdefault("instance", self.name)
        if key:
            spec.setdefault("key", key)
        self.candidates.append(spec)

    def sample(self, s):
        if len(self.samples) < 3:
            self.samples.append(s)

    def validation(self, spec):
        self.validations.append(spec)

    def _partial(self, st):
        d = self.result()
        d["paths"] += st.paths
        d["completed"] += st.completed
        d["decisions"] += st.decisions
        d["branch_checks"] += st.branch_checks
        d["partial"] = True
        return d

    def result(self):
        return {
            "name": self.name, "paths": self.paths, "completed": self.completed, "aborted": self.aborted,
            "exhausted": self.exhausted, "branch_checks": self.branch_checks, "decisions": self.decisions,
            "solver_ms": round(self.solver_ms, 1), "obligations": self.obligations, "discharged": self.discharged,
            "inconclusive": self.inconclusive, "candidates": self.candidates, "validations": self.validations,
            "samples": self.samples, "reach_ok": self.reach_ok, "notes": self.notes, "errors": self.errors,
            "wall_s": round(time.time() - self.t0, 2),
        }


def witness_env(ctx, m):
    return DefaultEnv(env_from_model(m))


def pc_holds_numerically(ctx, env, tol=0.0):
    """Does the path condition hold at env with the true functions substituted for the UFs?"""
    try:
        for c in ctx.pc + ctx.assumptions:
            if not numeval(c, env):
                return False
    except (CannotEvaluate, OverflowError, ValueError, ZeroDivisionError):
        return False
    return True


def fl(x):
    """JSON-safe float."""
    x = float(x)
    if x != x:
        return "nan"
    return x


def shaped_model(ctx, *extra, bound=2):
    """A model of the path condition (+ extra) in which every log-amplitude input (constants named ln_*) lies in
    [-bound, bound], so that the true exponentials are ordinary floats; falls back to any model.  Witness
    construction only: the verdict (sat) has already been given by the solver."""
    from .core import free_vars
    names = set()
    for c in list(ctx.constraints()) + list(extra):
        free_vars(c, names)
    lns = [z3.Real(n) for n in sorted(names) if n.startswith("ln_")]
    if lns:
        r, m = ctx.model(*extra, *[z3.And(v >= -bound, v <= bound) for v in lns])
        if r == z3.sat:
            return r, m
    return ctx.model(*extra)


def concretiser(m):
    """x -> float: value of a Sym / number under model m (or an env dict) with the true functions in place
    of the UFs (inputs created as exp(u) are concretised as math.exp(model(u)), not as the model's own 'exp')."""
    from .core import Sym, is_nan
    if isinstance(m, dict) and not isinstance(m, DefaultEnv):
        m = DefaultEnv({k: (v if isinstance(v, bool) else float(v)) for k, v in m.items()})
    env = m if isinstance(m, dict) else DefaultEnv(env_from_model(m))
    cache = {}

    def val(x):
        if x is None:
            return None
        if is_nan(x):
            return "nan"
        return fl(numeval(Sym.lift(x), env, cache=cache))
    val.env = env
    return val


DEFAULT_SAMPLERS = [
    ("ln_", lambda rnd: rnd.gauss(0.0, 0.8)),
    ("taper", lambda rnd: rnd.random()),
    ("n", lambda rnd: rnd.uniform(0.05, 4.0)),
    ("f", lambda rnd: rnd.uniform(0.0, 6.0)),
    ("", lambda rnd: rnd.gauss(0.0, 2.0)),
]


def real_witness(ctx, extra=(), tries=4000, seed=0, samplers=None, model=None):
    """Concretisation across the uninterpreted-function gap: find values of the free constants at which
    the path condition (+ extra, e.g. a negated obligation the solver found satisfiable) holds with the TRUE
    exp/log/sqrt/hypot/sin/cos substituted for the uninterpreted symbols.  The solver's model is tried first,
    then perturbations of it, then fresh samples.  Returns an env (dict) or None.  This is not the deciding
    step (the solver's sat/unsat is); it only turns a candidate into inputs the real library can be run on."""
    import random
    from .core import free_vars
    cons = list(ctx.pc) + list(ctx.assumptions) + list(extra)
    names = set()
    for c in cons:
        free_vars(c, names)
    names = sorted(names)
    rnd = random.Random(seed)
    samplers = (samplers or []) + DEFAULT_SAMPLERS

    def holds(env):
        try:
            cache = {}
            for c in cons:
                if not numeval(c, env, cache=cache):
                    return False
            return True
        except (CannotEvaluate, OverflowError, ValueError, ZeroDivisionError, TypeError):
            return False

    base = None
    if model is not None:
        base = env_from_model(model)
        env = DefaultEnv(base)
        if holds(env):
            return env
    bool_names = [n for n in names if base is not None and isinstance(base.get(n), bool)]

    def draw(n):
        for pre, f in samplers:
            if n.startswith(pre):
                return f(rnd)
        return rnd.gauss(0, 1)

    for t in range(tries):
        env = {}
        local = base is not None and t % 2 == 0
        sig = 10 ** rnd.uniform(-3, 0.3)
        for n in names:
            if n in bool_names:
                env[n] = base[n]
            elif base is not None and isinstance(base.get(n), int) and not isinstance(base.get(n), bool):
                env[n] = base[n]
            elif local and isinstance(base.get(n), float):
                env[n] = base[n] + rnd.gauss(0, sig) * max(1.0, abs(base[n]))
            else:
                env[n] = draw(n)
        env = DefaultEnv(env)
        if holds(env):
            return env
    return None


def abstract_ufs(exprs):
    """Replace every application of an uninterpreted function by a fresh real constant (same term -> same
    constant).  An over-approximation: unsat of the abstraction implies unsat of the original."""
    table = {}
    cache = {}

    def walk(t):
        k = t.get_id()
        if k in cache:
            return cache[k]
        if z3.is_app(t) and t.num_args() > 0:
            args = [walk(a) for a in t.children()]
            d = t.decl()
            if d.kind() == z3.Z3_OP_UNINTERPRETED:
                key = (d.name(), tuple(a.get_id() for a in args))
                if key not in table:
                    table[key] = (z3.Real(f"uf!{d.name()}!{len(table)}"), args)
                r = table[key][0]
            else:
                r = d(*args)
        else:
            r = t
        cache[k] = r
        return r
    return [walk(e) for e in exprs], table


def nlsat_solve(constraints, timeout_ms=20000):
    """-> (verdict, model or None, number of uninterpreted applications abstracted away).  A 'sat' is a genuine model only
    when nothing had to be abstracted (pure polynomial real arithmetic)."""
    try:
        abs_c, table = abstract_ufs(constraints)
        s = z3.Then("simplify", "purify-arith", "qfnra-nlsat").solver()
        s.set("timeout", int(timeout_ms))
        s.add(*abs_c)
        r = s.check()
        return str(r), (s.model() if r == z3.sat else None), len(table)
    except z3.Z3Exception as e:
        return f"error: {e}", None, -1


def nlsat_unsat(constraints, timeout_ms=20000):
    return nlsat_solve(constraints, timeout_ms)[0]
