"""Driver: ./check <Cxx> [--tier quick|thorough] [--replay file]

Runs every instance of harness/<Cxx>.py in its own process (all cores), replays every solver
witness against the unshimmed library, matches reproduced violations against known_findings.txt,
writes evidence/<Cxx>.json and prints VIOLATION / KNOWN-FINDING lines.
Exit: 0 = property held on everything explored (inconclusive items are reported, never called a pass),
1 = replay-confirmed violation not listed as known, 3 = harness error.
"""
import hashlib
import importlib
import json
import multiprocessing as mp
import os
import subprocess
import sys
import time
import traceback

ROOT = os.path.dirname(os.path.dirname(os.path.abspath(__file__)))
REPLAYS = os.path.join(ROOT, "replays")
EVIDENCE = os.environ.get("VERIF_EVIDENCE_DIR") or os.path.join(ROOT, "evidence")   # the override is a development aid (runs against seeded trees)
KNOWN = os.path.join(ROOT, "known_findings.txt")


def _worker(pid, inst, tier, conn):
    try:
        sys.setrecursionlimit(20000)
        import warnings
        warnings.simplefilter("ignore")
        import logging
        logging.getLogger("hvsrpy").addHandler(logging.NullHandler())
        logging.getLogger("hvsrpy").propagate = False
        from symx.report import InstanceReport
        mod = importlib.import_module("harness." + pid)
        rep = InstanceReport(inst["name"])
        budget = inst.get("timeout", None) or float(os.environ.get("VERIF_INSTANCE_BUDGET", "230"))
        rep.soft_deadline = time.time() + max(10.0, budget - 40.0)
        rep.flush = lambda d: conn.send(d)
        try:
            getattr(mod, inst["func"])(rep, tier=tier, **inst.get("kwargs", {}))
        except BaseException as e:   # noqa - includes engine aborts escaping a harness
            rep.errors.append(f"{type(e).__name__}: {e}\n" + traceback.format_exc()[-1500:])
        conn.send(rep.result())
    except BaseException as e:  # noqa
        try:
            conn.send({"name": inst["name"], "errors": [f"worker crashed: {type(e).__name__}: {e}\n" + traceback.format_exc()[-1500:]]})
        except Exception:
            pass
    finally:
        conn.close()


def run_instances(pid, insts, tier, nproc, per_instance_timeout):
    ctx = mp.get_context("fork")
    pending = list(insts)
    running = []
    results = []
    partials = {}
    os.environ["VERIF_INSTANCE_BUDGET"] = str(per_instance_timeout)
    while pending or running:
        while pending and len(running) < nproc:
            inst = pending.pop(0)
            pc, cc = ctx.Pipe(duplex=False)
            p = ctx.Process(target=_worker, args=(pid, inst, tier, cc), daemon=True)
            p.start()
            cc.close()
            running.append((p, pc, inst, time.time()))
        still = []
        for p, pc, inst, t0 in running:
            done = False
            msg = None
            alive = p.is_alive()
            while pc.poll(0 if alive else 0.2):
                try:
                    m = pc.recv()
                except EOFError:
                    break
                if m.get("partial"):
                    partials[inst["name"]] = m
                else:
                    msg = m
                    break
            if msg is not None:
                results.append(msg)
                done = True
            elif not alive:
                part = partials.get(inst["name"])
                if part is not None:
                    part.setdefault("errors", []).append(f"worker exited with code {p.exitcode} before finishing; results so far are kept")
                    results.append(part)
                else:
                    results.append({"name": inst["name"], "errors": [f"worker exited with code {p.exitcode} without result"]})
                done = True
            elif time.time() - t0 > inst.get("timeout", per_instance_timeout):
                p.kill()
                part = partials.get(inst["name"], {"name": inst["name"]})
                part.setdefault("inconclusive", []).append(f"instance stopped after {inst.get('timeout', per_instance_timeout)} s (budget); results so far are kept")
                part["timed_out"] = True
                results.append(part)
                done = True
            if done:
                p.join(1)
                pc.close()
            else:
                still.append((p, pc, inst, t0))
        running = still
        if running:
            time.sleep(0.02)
    return results


def clean_env():
    env = dict(os.environ)
    env["PYTHONDONTWRITEBYTECODE"] = "1"
    env["NUMBA_CACHE_DIR"] = os.path.join(ROOT, ".cache", "numba")
    env["MPLBACKEND"] = "Agg"
    env["PYTHONPATH"] = ROOT
    env["PYTHONWARNINGS"] = "ignore"
    return env


def run_replays(pid, specs, mode):
    """Run specs through harness.<pid>.replay / .validate in a clean process (real numpy/scipy/numba)."""
    if not specs:
        return []
    os.makedirs(REPLAYS, exist_ok=True)
    tmp = os.path.join(REPLAYS, f".batch_{pid}_{mode}_{os.getpid()}.json")
    with open(tmp, "w") as f:
        json.dump(specs, f)
    try:
        out = subprocess.run([sys.executable, "-m", "symx.replay", pid, mode, tmp], cwd=ROOT, env=clean_env(),
                             capture_output=True, text=True, timeout=3600)
        line = [l for l in out.stdout.splitlines() if l.startswith("REPLAY-RESULT ")]
        if not line:
            return [{"reproduced": False, "ok": False, "error": "replay process failed: " + (out.stderr or out.stdout)[-800:]}] * len(specs)
        return json.loads(line[-1][len("REPLAY-RESULT "):])
    finally:
        try:
            os.remove(tmp)
        except OSError:
            pass


def load_known():
    known, fixed = [], []
    if os.path.exists(KNOWN):
        for line in open(KNOWN):
            line = line.strip()
            if line.startswith("known:"):
                parts = line[len("known:"):].strip().split(None, 2)
                d = dict(p.split("=", 1) for p in parts[:2])
                d["what"] = parts[2] if len(parts) > 2 else ""
                known.append(d)
            elif line.startswith("fixed:"):
                fixed.append(line)
    return known, fixed


def spec_id(spec):
    return hashlib.sha256(json.dumps(spec, sort_keys=True, default=str).encode()).hexdigest()[:12]


def main(argv=None):
    argv = sys.argv[1:] if argv is None else argv
    if not argv:
        print(__doc__)
        return 2
    pid = argv[0]
    tier = os.environ.get("VERIF_TIER", "quick")
    replay_file = None
    i = 1
    while i < len(argv):
        if argv[i] == "--tier":
            tier = argv[i + 1]
            i += 2
        elif argv[i] == "--replay":
            replay_file = argv[i + 1]
            i += 2
        else:
            i += 1
    seed = int(os.environ.get("VERIF_SEED", "0") or 0)
    if replay_file:
        spec = json.load(open(replay_file))
        res = run_replays(pid, [spec], "replay")[0]
        print(json.dumps(res, indent=1))
        if res.get("reproduced"):
            print(f"VIOLATION property={pid} replay={replay_file}")
            return 1
        return 0

    t0 = time.time()
    sys.path.insert(0, ROOT)
    mod = importlib.import_module("harness." + pid)
    insts = mod.instances(tier)
    if os.environ.get("VERIF_ONLY"):   # development aid: run the instances whose name contains the given text (never set by the registered commands)
        insts = [i_ for i_ in insts if os.environ["VERIF_ONLY"] in i_["name"]]
    nproc = int(os.environ.get("VERIF_NPROC", "0") or 0) or min(16, os.cpu_count() or 4)
    per_inst = getattr(mod, "INSTANCE_TIMEOUT", {"quick": 240, "thorough": 1500})[tier]
    results = run_instances(pid, insts, tier, nproc, per_inst)

    # ---- aggregate
    agg = {k: 0 for k in ("paths", "completed", "branch_checks", "decisions", "obligations", "discharged", "reach_ok")}
    solver_ms = 0.0
    aborted, inconclusive, errors, candidates, validations, samples, per_instance = {}, [], [], [], [], [], []
    for r in results:
        for k in agg:
            agg[k] += r.get(k, 0)
        solver_ms += r.get("solver_ms", 0.0)
        for k, v in r.get("aborted", {}).items():
            aborted[k] = aborted.get(k, 0) + v
        inconclusive += [f"{r['name']}: {x}" for x in r.get("inconclusive", [])]
        ab = sum(r.get("aborted", {}).values())
        if r.get("paths", 0) >= 1 and ab >= r.get("paths", 0) and not r.get("obligations", 0):
            # vacuity guard per instance: nothing was decided here (the global guard below only sees the whole check)
            inconclusive.append(f"{r['name']}: every explored path was abandoned before an obligation ({r.get('aborted')}) - nothing decided by this instance")
        errors += [f"{r['name']}: {x}" for x in r.get("errors", [])]
        candidates += r.get("candidates", [])
        validations += r.get("validations", [])
        for s in r.get("samples", [])[:1]:
            if len(samples) < 12:
                samples.append({"instance": r["name"], **(s if isinstance(s, dict) else {"case": s})})
        per_instance.append({k: r.get(k) for k in ("name", "paths", "completed", "obligations", "discharged", "exhausted", "wall_s", "solver_ms")})

    # ---- replay candidates (dedupe per key, at most 4 witnesses per key)
    known, fixed = load_known()
    known_here = [k for k in known if k.get("property") == pid]
    by_key = {}
    for c in candidates:
        by_key.setdefault(c.get("key", c.get("label", "?")), []).append(c)
    to_replay = []
    for k, lst in by_key.items():
        # up to 4 witnesses per key, spread over the instances that produced them (a family whose witnesses do not reproduce
        # must not use up the replays of another family)
        per_inst = {}
        for c in lst:
            per_inst.setdefault(c.get("instance"), []).append(c)
        picked, rnd = [], 0
        while len(picked) < 4 and any(len(v) > rnd for v in per_inst.values()):
            for v in per_inst.values():
                if len(v) > rnd and len(picked) < 4:
                    picked.append(v[rnd])
            rnd += 1
        to_replay += picked
    rres = run_replays(pid, to_replay, "replay")
    violations, known_hits, not_reproduced = [], {}, []
    os.makedirs(REPLAYS, exist_ok=True)
    for spec, res in zip(to_replay, rres):
        key = res.get("key") or spec.get("key") or spec.get("label")
        if res.get("reproduced"):
            hit = next((k for k in known_here if k.get("key") == key), None)
            if hit is not None:
                known_hits.setdefault(key, (hit, spec, res))
            else:
                path = os.path.join(REPLAYS, f"{pid}_{spec_id(spec)}.json")
                with open(path, "w") as f:
                    json.dump(spec, f, indent=1, default=str)
                violations.append((key, path, res))
        elif res.get("error"):
            errors.append(f"replay of '{spec.get('label')}' failed: {res.get('error')} {str(res.get('trace', ''))[-600:]}")
        else:
            not_reproduced.append({"key": key, "label": spec.get("label"), "detail": str(res.get("detail", res.get("error", "")))[:300]})
    for nr in not_reproduced:
        inconclusive.append(f"witness for '{nr['label']}' did not reproduce on the real library (candidate only): {nr['detail']}")

    # ---- concolic cross-validation
    vmax = getattr(mod, "MAX_VALIDATIONS", {"quick": 60, "thorough": 400})[tier]
    vsel = validations[:vmax]
    vres = run_replays(pid, vsel, "validate")
    v_ok = sum(1 for r in vres if r.get("ok"))
    v_bad = [(s, r) for s, r in zip(vsel, vres) if not r.get("ok") and not r.get("skipped")]
    for s, r in v_bad[:5]:
        errors.append(f"model-vs-library mismatch in {s.get('instance')}: {str(r.get('detail', r.get('error')))[:400]}")

    # ---- report
    seen_keys = set()
    for key, path, res in violations:
        if key in seen_keys:
            continue
        seen_keys.add(key)
        print(f"VIOLATION property={pid} replay={path}")
        print(f"  {key}: {str(res.get('detail', ''))[:300]}")
    for key, (hit, spec, res) in known_hits.items():
        print(f"KNOWN-FINDING: property={pid} {hit.get('what', key)} [key={key}]")
    # a listed finding that no longer shows up is simply not printed (nothing is suppressed by the file)

    wall = time.time() - t0
    states = max(agg["completed"], 0)
    ev = {
        "property_id": pid, "tier": tier, "seed": seed, "level": "model_checking",
        "coverage": {
            "states": states, "transitions": max(agg["decisions"], agg["branch_checks"]) or max(agg["obligations"], 1),   # pure-SMT instances fork nothing: one query per obligation
            "traces_validated_against_impl": v_ok,
            "samples": samples or [{"note": "no sample recorded"}],
            "obligations": agg["obligations"], "discharged": agg["discharged"],
            "inconclusive": len(inconclusive), "inconclusive_notes": inconclusive[:40],
            "paths_explored": agg["paths"], "degenerate_or_aborted_paths": aborted,
            "reachability_witnesses": agg["reach_ok"],
            "solver_ms": round(solver_ms), "solver_queries": agg["branch_checks"] + agg["obligations"],
            "instances": len(insts), "per_instance": per_instance[:200],
            "witnesses_replayed": len(to_replay), "witnesses_reproduced": len(violations) + len(known_hits),
            "witnesses_not_reproduced": len(not_reproduced), "witnesses_not_reproduced_details": not_reproduced[:12],
            "known_findings_seen": sorted(known_hits), "validation_mismatches": len(v_bad),
            "functions_encoded": getattr(mod, "functions_encoded", lambda: getattr(mod, "FUNCTIONS", []))(),
            "bounds": getattr(mod, "BOUNDS", {}).get(tier, getattr(mod, "BOUNDS", {})),
            "stubs": getattr(mod, "STUBS", []),
            "outside_claim": getattr(mod, "OUTSIDE", []),
            "explanation": getattr(mod, "__doc__", "") or "",
            "exhaustive": False,
            "harness_errors": errors[:20],
        },
        "assumptions": getattr(mod, "ASSUMPTIONS", []),
        "wall_s": round(wall, 1),
        "violations": len(seen_keys),
    }
    os.makedirs(EVIDENCE, exist_ok=True)
    with open(os.path.join(EVIDENCE, f"{pid}.json"), "w") as f:
        json.dump(ev, f, indent=1, default=str)
    print(f"{pid} [{tier}] instances={len(insts)} paths={agg['paths']} states={states} obligations={agg['obligations']} "
          f"discharged={agg['discharged']} inconclusive={len(inconclusive)} validated={v_ok}/{len(vsel)} "
          f"violations={len(seen_keys)} known={len(known_hits)} solver_ms={round(solver_ms)} wall={wall:.1f}s")
    for x in inconclusive[:8]:
        print("  INCONCLUSIVE:", x[:240])
    if seen_keys:
        return 1
    if errors:
        for e in errors[:6]:
            print("  HARNESS-ERROR:", e[:1200])
        return 3
    if states < 1:
        print("  HARNESS-ERROR: no path reached an obligation")
        return 3
    return 0


if __name__ == "__main__":
    try:
        rc = main()
    except SystemExit:
        raise
    except BaseException as e:   # noqa  - a crash of the machinery is a harness error (3), never a verdict
        import traceback
        traceback.print_exc()
        print(f"  HARNESS-ERROR: {type(e).__name__}: {str(e)[:600]}")
        rc = 3
    sys.exit(rc)
