"""SYMX core: symbolic values over z3 Reals and a decision-prefix path explorer.

The real hvsrpy source is executed on these values (see loader.py / symnp.py).  Every
``bool()`` taken on a symbolic condition asks the solver which sides are feasible under the
current path condition; the function under test is re-executed once per feasible path.
"""
import fractions
import math
import time

import numpy as _np
import z3


class PathAbort(BaseException):
    """Raised to leave the current path (BaseException: never caught by `except Exception`)."""


class Infeasible(PathAbort):
    pass


class Degenerate(PathAbort):
    """Path on which a symbolic denominator is zero (IEEE inf/nan territory) - outside the claim."""


class OutsideClaim(PathAbort):
    """The path leaves the part of the input space the property speaks about (stated per harness)."""


class Unsupported(PathAbort):
    """The engine met an operation it has no sound model for on this path."""


# ----------------------------------------------------------------------------- constants
_Q_CACHE = {}


def rationalise(x):
    """The real number a concrete float stands for: the simple rational (denominator <= 1e6) within 64 ulp
    (a few accumulated roundings of concrete float arithmetic inside the code), else its exact binary value."""
    x = float(x)
    fr = fractions.Fraction(x)
    if fr.denominator == 1:
        return fr
    cand = fr.limit_denominator(10**6)
    if cand != fr:
        ulp = math.ulp(x)
        if abs(cand - fr) <= 64 * fractions.Fraction(ulp):
            return cand
    return fr


def qval(x):
    """z3 RealVal for a concrete python/numpy number."""
    if isinstance(x, (bool, _np.bool_)):
        return z3.RealVal(int(x))
    if isinstance(x, (int, _np.integer)):
        return z3.RealVal(int(x))
    if isinstance(x, fractions.Fraction):
        return z3.RealVal(f"{x.numerator}/{x.denominator}") if x.denominator != 1 else z3.RealVal(x.numerator)
    x = float(x)
    if x != x or x in (math.inf, -math.inf):
        raise Unsupported(f"non-finite constant {x} reached symbolic arithmetic")
    hit = _Q_CACHE.get(x)
    if hit is None:
        fr = rationalise(x)
        hit = z3.RealVal(f"{fr.numerator}/{fr.denominator}") if fr.denominator != 1 else z3.RealVal(fr.numerator)
        _Q_CACHE[x] = hit
    return hit


def is_nan(x):
    return isinstance(x, (float, _np.floating)) and x != x


def _sexprs(text):
    toks = text.replace("(", " ( ").replace(")", " ) ").split()
    pos = 0

    def rd():
        nonlocal pos
        t = toks[pos]
        pos += 1
        if t == "(":
            out = []
            while toks[pos] != ")":
                out.append(rd())
            pos += 1
            return out
        return t
    out = []
    while pos < len(toks):
        out.append(rd())
    return out


def _num(e):
    if isinstance(e, str):
        e = e.rstrip("?")
        return fractions.Fraction(e)
    op, args = e[0], [_num(a) for a in e[1:]]
    if op == "-":
        return -args[0] if len(args) == 1 else args[0] - sum(args[1:])
    if op == "+":
        return sum(args)
    if op == "*":
        r = fractions.Fraction(1)
        for a in args:
            r *= a
        return r
    if op == "/":
        return args[0] / args[1]
    raise ValueError(f"cannot read model value {e}")


def parse_cli_model(out):
    """(define-fun name () Real value) lines of a z3 model -> {name: Fraction} (algebraic values as 40-digit decimals)."""
    body = out.split("\n", 1)[1] if "\n" in out else ""
    env = {}
    for top in _sexprs(body):
        items = top[1:] if (isinstance(top, list) and top and top[0] == "model") else (top if isinstance(top, list) else [])
        for it in items:
            if isinstance(it, list) and len(it) == 5 and it[0] == "define-fun" and it[2] == []:
                try:
                    if it[3] == "Real" or it[3] == "Int":
                        env[it[1]] = _num(it[4])
                    elif it[3] == "Bool":
                        env[it[1]] = (it[4] == "true")
                except (ValueError, ZeroDivisionError, IndexError):
                    pass
    return env


# ----------------------------------------------------------------------------- context
class Ctx:
    cur = None

    def __init__(self, timeout_ms=20000):
        self.solver = z3.Solver()
        self.solver.set("timeout", timeout_ms)
        self.timeout_ms = timeout_ms
        self.decisions = []      # [taken, other_side_feasible]
        self.pos = 0
        self.assumptions = []    # defining / input constraints
        self.pc = []             # branch conditions taken
        self.n_checks = 0
        self.solver_ms = 0.0
        self.fresh = 0
        self.notes = {}          # harness scratch (per path)
        self.unknown_branches = 0
        self.decided = {}        # id of a decided condition -> (term, decision) on this path

    # -- construction helpers
    def fresh_real(self, tag):
        self.fresh += 1
        return z3.Real(f"{tag}!{self.fresh}")

    def fresh_int(self, tag):
        self.fresh += 1
        return z3.Int(f"{tag}!{self.fresh}")

    def assume(self, c):
        self.assumptions.append(c)
        self.solver.add(c)

    def constraints(self):
        return list(self.solver.assertions())

    def _nlsat(self, extra, want_model=False):
        """Polynomial real arithmetic engine (Settings.engine == "nlsat"): a fresh nlsat solver on the asserted constraints."""
        s = z3.Then("simplify", "purify-arith", "qfnra-nlsat").solver()
        s.set("timeout", int(self.timeout_ms))
        s.add(*self.solver.assertions())
        s.add(*extra)
        try:
            r = s.check()
        except z3.Z3Exception:
            return z3.unknown, None
        return r, (s.model() if (want_model and r == z3.sat) else None)

    def query_assumptions_only(self, *extra, timeout_ms=None, pc_prefix=0):
        """Decide extra under the input/defining assumptions and the first pc_prefix branch decisions of the path (the later ones left out): unsat is
        stronger than needed, sat is a candidate for the replay.  Polynomial engine (z3cli)."""
        keep = self.timeout_ms
        if timeout_ms:
            self.timeout_ms = timeout_ms
        t = time.time()
        try:
            return self._cli(extra, want_model=True, base=list(self.assumptions) + list(self.pc[:pc_prefix]))
        finally:
            self.timeout_ms = keep
            self.n_checks += 1
            self.solver_ms += (time.time() - t) * 1000

    def _cli(self, extra, want_model=False, base=None):
        """Settings.engine == "z3cli": the query is written out as SMT-LIB2 and decided by the z3 4.8.12 binary with its
        nlsat tactic (it decides the polynomial queries of the Voronoi harness in a fraction of a second where the
        5.1.0 library does not finish).  A model comes back as {constant name: Fraction / float}."""
        import subprocess
        s = z3.Solver()
        s.add(*(self.solver.assertions() if base is None else base))
        s.add(*extra)
        text = s.to_smt2()
        text = text.replace("(check-sat)", "(check-sat-using (then simplify purify-arith qfnra-nlsat))" + ("\n(get-model)" if want_model else ""))
        text = "(set-option :pp.decimal true)\n(set-option :pp.decimal_precision 40)\n" + text
        secs = max(1, int((self.timeout_ms + 999) // 1000))
        try:
            out = subprocess.run([Settings.z3_binary, f"-T:{secs}", "-in"], input=text, capture_output=True, text=True, timeout=secs + 10).stdout
        except subprocess.TimeoutExpired:
            return z3.unknown, None
        head = out.strip().split("\n", 1)[0].strip() if out.strip() else ""
        if "(error" in out and head not in ("sat", "unsat"):
            return z3.unknown, None
        if head == "unsat":
            return z3.unsat, None
        if head != "sat":
            return z3.unknown, None
        return z3.sat, (parse_cli_model(out) if want_model else None)

    def _check(self, *extra):
        t = time.time()
        if Settings.engine == "z3cli":
            r = self._cli(extra)[0]
        elif Settings.engine == "nlsat":
            r = self._nlsat(extra)[0]
        else:
            self.solver.push()
            try:
                self.solver.add(*extra)
                r = self.solver.check()
            finally:
                self.solver.pop()
        self.n_checks += 1
        self.solver_ms += (time.time() - t) * 1000
        return r

    def branch(self, cond):
        """Decide a symbolic condition: replay the prefix, then fork."""
        cond = z3.simplify(cond)
        if z3.is_true(cond):
            return True
        if z3.is_false(cond):
            return False
        hit = self.decided.get(cond.get_id())
        if hit is not None and z3.eq(hit[0], cond):
            return hit[1]           # same condition already decided on this path: implied, no fork
        d = self._branch(cond)
        self.decided[cond.get_id()] = (cond, d)
        return d

    def _branch(self, cond):
        if self.pos < len(self.decisions):
            d = self.decisions[self.pos][0]
            self.pos += 1
            c = cond if d else z3.Not(cond)
            self.solver.add(c)
            self.pc.append(c)
            return d
        t = self._check(cond)
        f = self._check(z3.Not(cond))
        if t == z3.unknown or f == z3.unknown:
            self.unknown_branches += 1
        can_t, can_f = t != z3.unsat, f != z3.unsat
        if can_t and can_f:
            d, other = True, True
        elif can_t:
            d, other = True, False
        elif can_f:
            d, other = False, False
        else:
            raise Infeasible("path condition unsatisfiable")
        self.decisions.append([d, other])
        self.pos += 1
        c = cond if d else z3.Not(cond)
        self.solver.add(c)
        self.pc.append(c)
        return d

    def choose(self, n, tag="choice"):
        """Solver-independent n-way fork (a harness-level choice, e.g. a mask bit)."""
        k = 0
        while k < n - 1:
            b = z3.Bool(f"{tag}!{len(self.decisions)}!{self.pos}")
            if self.branch(b):
                return k
            k += 1
        return n - 1

    def check(self, *extra, timeout_ms=None):
        """Satisfiability of path condition + extra (used for obligations)."""
        if timeout_ms:
            self.solver.set("timeout", timeout_ms)
        try:
            return self._check(*extra)
        finally:
            if timeout_ms:
                self.solver.set("timeout", self.timeout_ms)

    def model(self, *extra):
        t = time.time()
        if Settings.engine in ("nlsat", "z3cli"):
            r, m = self._cli(extra, want_model=True) if Settings.engine == "z3cli" else self._nlsat(extra, want_model=True)
            self.n_checks += 1
            self.solver_ms += (time.time() - t) * 1000
            return r, m
        self.solver.push()
        try:
            self.solver.add(*extra)
            r = self.solver.check()
            m = self.solver.model() if r == z3.sat else None
        finally:
            self.solver.pop()
        self.n_checks += 1
        self.solver_ms += (time.time() - t) * 1000
        return r, m


class Exploration:
    """Bookkeeping of one explore() run."""

    def __init__(self):
        self.paths = 0
        self.completed = 0
        self.aborted = {}
        self.exhausted = False    # True when every feasible path was visited
        self.branch_checks = 0
        self.solver_ms = 0.0
        self.unknown_branches = 0
        self.decisions = 0


def explore(fn, max_paths=300, timeout_ms=20000, stats=None, on_abort=None):
    """Run fn(ctx) once per feasible path; yield (ctx, result)."""
    st = stats if stats is not None else Exploration()
    prefix = []
    while True:
        ctx = Ctx(timeout_ms)
        ctx.decisions = [list(d) for d in prefix]
        Ctx.cur = ctx
        res = None
        ok = False
        try:
            res = fn(ctx)
            ok = True
        except (PathAbort, ZeroDivisionError) as e:
            # ZeroDivisionError: concrete 0/0 between python numbers in an object array (numpy: nan) -
            # the same degenerate territory as a symbolic zero denominator.
            k = type(e).__name__
            st.aborted[k] = st.aborted.get(k, 0) + 1
            if on_abort is not None:
                on_abort(ctx, e)
        finally:
            Ctx.cur = None
        st.paths += 1
        st.branch_checks += ctx.n_checks
        st.solver_ms += ctx.solver_ms
        st.unknown_branches += ctx.unknown_branches
        st.decisions += len(ctx.decisions)
        if ok:
            st.completed += 1
            Ctx.cur = ctx
            try:
                yield ctx, res
            finally:
                Ctx.cur = None
            st.solver_ms += 0  # obligations account for their own time
        dec = ctx.decisions
        while dec and not dec[-1][1]:
            dec.pop()
        if not dec:
            st.exhausted = True
            return
        if st.paths >= max_paths:
            return
        dec[-1] = [not dec[-1][0], False]
        prefix = dec


# ----------------------------------------------------------------------------- values
class SymBool:
    __slots__ = ("e",)

    def __init__(self, e):
        self.e = e

    def __bool__(self):
        return Ctx.cur.branch(self.e)

    @staticmethod
    def lift(o):
        return o.e if isinstance(o, SymBool) else z3.BoolVal(bool(o))

    def __and__(self, o):
        if isinstance(o, _np.ndarray):
            return NotImplemented
        return SymBool(z3.And(self.e, SymBool.lift(o)))

    __rand__ = __and__

    def __or__(self, o):
        if isinstance(o, _np.ndarray):
            return NotImplemented
        return SymBool(z3.Or(self.e, SymBool.lift(o)))

    __ror__ = __or__

    def __invert__(self):
        return SymBool(z3.Not(self.e))

    # a bool used as a number (True > 0, int(flag), sum of flags)
    def _num(self):
        return Sym(z3.If(self.e, z3.RealVal(1), z3.RealVal(0)))

    def __gt__(self, o):
        return self._num() > o

    def __ge__(self, o):
        return self._num() >= o

    def __lt__(self, o):
        return self._num() < o

    def __le__(self, o):
        return self._num() <= o

    def __add__(self, o):
        return self._num() + (o._num() if isinstance(o, SymBool) else o)

    __radd__ = __add__

    def __int__(self):
        return int(bool(self))

    def __format__(self, spec):
        return "<symbool>"

    def __repr__(self):
        return f"SymBool({self.e})"


UF_SQRT = z3.Function("sqrt", z3.RealSort(), z3.RealSort())
UF_EXP = z3.Function("exp", z3.RealSort(), z3.RealSort())
UF_LOG = z3.Function("log", z3.RealSort(), z3.RealSort())
UF_MAG = z3.Function("mag", z3.RealSort(), z3.RealSort(), z3.RealSort())
UF_COSD = z3.Function("cosd", z3.RealSort(), z3.RealSort())
UF_SIND = z3.Function("sind", z3.RealSort(), z3.RealSort())
UF_LOG10 = z3.Function("log10", z3.RealSort(), z3.RealSort())
UF_POW10 = z3.Function("pow10", z3.RealSort(), z3.RealSort())
UF_SINC = z3.Function("sin", z3.RealSort(), z3.RealSort())


class Angle:
    """atan2(y, x) of symbolic reals, kept as the direction (x, y): only its ORDER is ever needed (argsort of
    polygon vertices).  Angles in (-pi, pi] are compared exactly: by half plane first, by the sign of the cross
    product inside a half plane."""
    __slots__ = ("x", "y")

    def __init__(self, y, x):
        self.x, self.y = x, y

    def _half(self):
        # 0: (-pi, 0)   1: 0   2: (0, pi)   3: pi
        if self.y < 0:
            return 0
        if self.y > 0:
            return 2
        return 3 if self.x < 0 else 1

    def __lt__(self, o):
        ha, hb = self._half(), o._half()
        if ha != hb:
            return ha < hb
        if ha in (1, 3):
            return False
        return bool(self.x * o.y - self.y * o.x > 0)

    def __gt__(self, o):
        return o.__lt__(self)

    def __le__(self, o):
        return not o.__lt__(self)

    def __ge__(self, o):
        return not self.__lt__(o)

    def __eq__(self, o):
        return not self.__lt__(o) and not o.__lt__(self)

    __hash__ = None


class Settings:
    engine = "smt"       # "smt" (incremental z3 core) | "nlsat" (fresh nlsat solver per query) | "z3cli" (z3 4.8.12 binary, nlsat tactic)
    z3_binary = "/usr/bin/z3"
    sqrt_mode = "uf"     # "uf" | "exact"
    mag_mode = "uf"      # "uf" | "exact"


def _zabs(e):
    return z3.If(e >= 0, e, -e)


class Sym:
    """A real-valued symbolic scalar.  `lg` = term known to be log(self); `ex` = term known to be exp(self)."""
    __slots__ = ("e", "lg", "ex")

    def __init__(self, e, lg=None, ex=None):
        self.e = e
        self.lg = lg
        self.ex = ex

    # -- lifting
    @staticmethod
    def lift(x):
        if isinstance(x, Sym):
            return x.e
        if isinstance(x, z3.ExprRef):
            return x
        return qval(x)

    @staticmethod
    def var(name, ctx=None, lo=None, hi=None, pos=False):
        v = z3.Real(name)
        c = ctx or Ctx.cur
        if lo is not None:
            c.assume(v >= qval(lo))
        if hi is not None:
            c.assume(v <= qval(hi))
        if pos:
            c.assume(v > 0)
        return Sym(v)

    @staticmethod
    def posvar(name, ctx=None):
        """Positive value created as exp(u): log() of it is the linear term u."""
        c = ctx or Ctx.cur
        u = z3.Real("ln_" + name)
        y = UF_EXP(u)
        c.assume(y > 0)
        return Sym(y, lg=u)

    # -- arithmetic
    def __add__(s, o):
        if is_nan(o):
            return float("nan")
        return Sym(s.e + Sym.lift(o))

    __radd__ = __add__

    def __sub__(s, o):
        if is_nan(o):
            return float("nan")
        return Sym(s.e - Sym.lift(o))

    def __rsub__(s, o):
        if is_nan(o):
            return float("nan")
        return Sym(Sym.lift(o) - s.e)

    def __mul__(s, o):
        if is_nan(o):
            return float("nan")
        lg = None
        if isinstance(o, Sym) and s.lg is not None and o.lg is not None:
            lg = s.lg + o.lg
        return Sym(s.e * Sym.lift(o), lg=lg)

    __rmul__ = __mul__

    def __truediv__(s, o):
        if is_nan(o):
            return float("nan")
        if isinstance(o, Sym):
            d = o.e
            if not Ctx.cur.branch(d != 0):
                raise Degenerate("division by zero")
            lg = s.lg - o.lg if (s.lg is not None and o.lg is not None) else None
            return Sym(s.e / d, lg=lg)
        if o == 0:
            raise Degenerate("division by concrete zero")
        return Sym(s.e / qval(o))

    def __rtruediv__(s, o):
        if is_nan(o):
            return float("nan")
        if not Ctx.cur.branch(s.e != 0):
            raise Degenerate("division by zero")
        lg = None
        if s.lg is not None and not isinstance(o, Sym) and o == 1:
            lg = -s.lg
        return Sym(Sym.lift(o) / s.e, lg=lg)

    def __floordiv__(s, o):
        c = Ctx.cur
        k = c.fresh_int("fdiv")
        d = Sym.lift(o)
        if isinstance(o, Sym):
            raise Unsupported("symbolic floor divisor")
        if o <= 0:
            raise Unsupported("non-positive floor divisor")
        c.assume(z3.And(d * z3.ToReal(k) <= s.e, s.e < d * (z3.ToReal(k) + 1)))
        return Sym(z3.ToReal(k))

    def __divmod__(s, o):
        q = s.__floordiv__(o)
        return q, Sym(s.e - Sym.lift(o) * q.e)

    def __mod__(s, o):
        return s.__divmod__(o)[1]

    def __int__(s):
        """int() of an integer-valued symbolic quantity (e.g. a floor-division count): forks over the small values it can take."""
        c = Ctx.cur
        for v in (0, 1, -1, 2, -2, 3, -3, 4, -4, 5, -5, 6, -6, 7, -7, 8, -8):
            if c.branch(s.e == v):
                return v
        raise Unsupported("int() of a symbolic value outside -8..8")

    __index__ = __int__

    def __round__(s, ndigits=None):
        """round() of a symbolic real (Python semantics: nearest integer, ties to even): forks over the small values it can take."""
        if ndigits not in (None, 0):
            raise Unsupported("round() with digits on a symbolic value")
        c = Ctx.cur
        for v in (0, 1, 2, 3, 4, 5, 6, 7, 8, 9, 10, 11, 12, -1, -2, -3, -4):
            half = z3.RealVal("1/2")
            inside = z3.And(s.e > v - half, s.e < v + half)
            tie = z3.Or(s.e == v - half, s.e == v + half) if v % 2 == 0 else z3.BoolVal(False)
            if c.branch(z3.Or(inside, tie)):
                return v
        raise Unsupported("round() of a symbolic value outside -4..12")

    def __neg__(s):
        return Sym(-s.e)

    def __pos__(s):
        return s

    def __abs__(s):
        if s.lg is not None:
            return s
        return Sym(_zabs(s.e))

    def __pow__(s, k):
        if isinstance(k, Sym):
            raise Unsupported("symbolic exponent")
        if k == 2:
            return Sym(s.e * s.e, lg=None if s.lg is None else 2 * s.lg)
        if k == 0.5:
            return s.sqrt()
        if isinstance(k, (int, _np.integer)) and 0 <= k <= 8:
            out = z3.RealVal(1)
            for _ in range(int(k)):
                out = out * s.e
            return Sym(out)
        raise Unsupported(f"power {k}")

    # -- comparisons (in log space when both sides carry it: exp is monotone)
    def _cmp(s, o, op):
        if is_nan(o):
            return False
        if isinstance(o, (float, _np.floating)) and o in (math.inf, -math.inf):
            # finite symbolic value against an infinity: decided without the solver
            return bool(op(0.0, float(o)))
        if isinstance(o, Sym) and s.lg is not None and o.lg is not None:
            return SymBool(op(s.lg, o.lg))
        return SymBool(op(s.e, Sym.lift(o)))

    def __lt__(s, o):
        return s._cmp(o, lambda a, b: a < b)

    def __le__(s, o):
        return s._cmp(o, lambda a, b: a <= b)

    def __gt__(s, o):
        return s._cmp(o, lambda a, b: a > b)

    def __ge__(s, o):
        return s._cmp(o, lambda a, b: a >= b)

    def __eq__(s, o):
        if o is None or isinstance(o, str):
            return False
        if is_nan(o):
            return False
        return s._cmp(o, lambda a, b: a == b)

    def __ne__(s, o):
        if o is None or isinstance(o, str):
            return True
        if is_nan(o):
            return True
        return s._cmp(o, lambda a, b: a != b)

    __hash__ = None

    def __bool__(s):
        # truthiness of a number: x != 0 (e.g. `value or default`)
        return Ctx.cur.branch(s.e != 0)

    # -- transcendental
    def sqrt(s):
        c = Ctx.cur
        if s.lg is not None:
            half = s.lg / 2
            y = UF_EXP(z3.simplify(half))
            c.assume(y > 0)
            return Sym(y, lg=half)
        if Settings.sqrt_mode == "uf":
            y = UF_SQRT(z3.simplify(s.e))
            c.assume(y >= 0)
            return Sym(y)
        y = c.fresh_real("sqrt")
        if Settings.sqrt_mode == "positive":
            # over-approximation: any positive value; the defining equation is kept aside for the queries that need it
            c.assume(y > 0)
            c.notes.setdefault("sqrt_defs", []).append(y * y == s.e)
            return Sym(y)
        c.assume(z3.And(y >= 0, y * y == s.e))
        return Sym(y)

    def arctan2(s, x):
        return Angle(s, x if isinstance(x, Sym) else Sym(qval(x)))

    def sign(s):
        if s > 0:
            return 1.0
        if s < 0:
            return -1.0
        return 0.0

    def exp(s):
        if s.ex is not None:
            return Sym(s.ex, lg=s.e)
        a = z3.simplify(s.e)
        y = UF_EXP(a)
        Ctx.cur.assume(y > 0)
        return Sym(y, lg=s.e)

    def log(s):
        if s.lg is not None:
            return Sym(s.lg, ex=s.e)
        return Sym(UF_LOG(z3.simplify(s.e)), ex=s.e)

    def log10(s):
        return Sym(UF_LOG10(z3.simplify(s.e)))

    def sin(s):
        return Sym(UF_SINC(z3.simplify(s.e)))

    def conjugate(s):
        return s

    conj = conjugate

    @property
    def real(s):
        return s

    @property
    def imag(s):
        return 0

    def __format__(s, spec):
        return "<sym>"

    def __repr__(s):
        return f"Sym({s.e})"

    def __float__(s):
        raise Unsupported("float() of a symbolic value outside a shadowed module")


def _defer(f):
    def g(s, o):
        if isinstance(o, _np.ndarray):
            return NotImplemented
        return f(s, o)
    g.__name__ = f.__name__
    return g


for _n in ("__add__", "__radd__", "__sub__", "__rsub__", "__mul__", "__rmul__", "__truediv__",
           "__rtruediv__", "__lt__", "__le__", "__gt__", "__ge__", "__eq__", "__ne__"):
    setattr(Sym, _n, _defer(getattr(Sym, _n)))


class Rad:
    """An angle handed to cos/sin: carries the *degree* expression."""
    __slots__ = ("deg",)

    def __init__(self, deg):
        self.deg = deg


def cosd(deg_term):
    a = z3.simplify(deg_term)
    c = Ctx.cur
    c.assume(UF_COSD(a) * UF_COSD(a) + UF_SIND(a) * UF_SIND(a) == 1)
    c.notes.setdefault("angles", []).append(a)
    return Sym(UF_COSD(a))


def sind(deg_term):
    a = z3.simplify(deg_term)
    c = Ctx.cur
    c.assume(UF_COSD(a) * UF_COSD(a) + UF_SIND(a) * UF_SIND(a) == 1)
    c.notes.setdefault("angles", []).append(a)
    return Sym(UF_SIND(a))


class CSym:
    """Complex symbolic value (re, im): what rfft output, |.|, conj, products need."""
    __slots__ = ("re", "im")

    def __init__(self, re, im):
        self.re = re if isinstance(re, Sym) else Sym(qval(re))
        self.im = im if isinstance(im, Sym) else Sym(qval(im))

    def mag(s):
        c = Ctx.cur
        if Settings.mag_mode == "uf":
            y = UF_MAG(z3.simplify(s.re.e), z3.simplify(s.im.e))
            c.assume(y >= 0)
            return Sym(y)
        y = c.fresh_real("mag")
        c.assume(z3.And(y >= 0, y * y == s.re.e * s.re.e + s.im.e * s.im.e))
        return Sym(y)

    def __abs__(s):
        return s.mag()

    def conjugate(s):
        return CSym(s.re, -s.im)

    conj = conjugate

    @property
    def real(s):
        return s.re

    @property
    def imag(s):
        return s.im

    @staticmethod
    def _parts(o):
        if isinstance(o, CSym):
            return o.re, o.im
        if isinstance(o, complex):
            return Sym(qval(o.real)), Sym(qval(o.imag))
        if isinstance(o, Sym):
            return o, Sym(z3.RealVal(0))
        return Sym(qval(o)), Sym(z3.RealVal(0))

    def __add__(s, o):
        if isinstance(o, _np.ndarray):
            return NotImplemented
        r, i = CSym._parts(o)
        return CSym(s.re + r, s.im + i)

    __radd__ = __add__

    def __sub__(s, o):
        if isinstance(o, _np.ndarray):
            return NotImplemented
        r, i = CSym._parts(o)
        return CSym(s.re - r, s.im - i)

    def __rsub__(s, o):
        if isinstance(o, _np.ndarray):
            return NotImplemented
        r, i = CSym._parts(o)
        return CSym(r - s.re, i - s.im)

    def __mul__(s, o):
        if isinstance(o, _np.ndarray):
            return NotImplemented
        r, i = CSym._parts(o)
        return CSym(s.re * r - s.im * i, s.re * i + s.im * r)

    __rmul__ = __mul__

    def __truediv__(s, o):
        if isinstance(o, _np.ndarray):
            return NotImplemented
        if isinstance(o, (CSym, complex)):
            r, i = CSym._parts(o)
            den = r * r + i * i
            return CSym((s.re * r + s.im * i) / den, (s.im * r - s.re * i) / den)
        return CSym(s.re / o, s.im / o)

    def __neg__(s):
        return CSym(-s.re, -s.im)

    def __repr__(s):
        return f"CSym({s.re.e}, {s.im.e})"

    __hash__ = None


# ----------------------------------------------------------------------------- helpers
def symarray(prefix, shape, ctx=None, nonneg=False, pos=False, lo=None, hi=None):
    """Object ndarray of fresh symbolic reals named prefix_i[_j]."""
    c = ctx or Ctx.cur
    a = _np.empty(shape, dtype=object)
    for idx in _np.ndindex(a.shape):
        name = prefix + "_" + "_".join(str(i) for i in idx)
        if pos == "exp":
            a[idx] = Sym.posvar(name, c)
            continue
        v = z3.Real(name)
        if nonneg:
            c.assume(v >= 0)
        if pos:
            c.assume(v > 0)
        if lo is not None:
            c.assume(v >= qval(lo))
        if hi is not None:
            c.assume(v <= qval(hi))
        a[idx] = Sym(v)
    return a


def terms(a):
    """Flat list of z3 terms of an array / scalar holding Sym or numbers."""
    if isinstance(a, Sym):
        return [a.e]
    arr = _np.asarray(a, dtype=object)
    return [Sym.lift(v) for v in arr.flat]


def model_value(m, t):
    """Python float of a z3 term under model m (model completion on)."""
    v = m.eval(t, model_completion=True)
    if z3.is_rational_value(v):
        return float(fractions.Fraction(v.numerator_as_long(), v.denominator_as_long()))
    if z3.is_algebraic_value(v):
        return float(v.approx(20).as_fraction())
    if z3.is_int_value(v):
        return float(v.as_long())
    if z3.is_true(v):
        return True
    if z3.is_false(v):
        return False
    raise ValueError(f"cannot concretise {v}")


def model_fraction(m, t):
    v = m.eval(t, model_completion=True)
    if z3.is_rational_value(v):
        return fractions.Fraction(v.numerator_as_long(), v.denominator_as_long())
    if z3.is_algebraic_value(v):
        return v.approx(30).as_fraction()
    if z3.is_int_value(v):
        return fractions.Fraction(v.as_long())
    raise ValueError(f"cannot concretise {v}")


def free_vars(t, acc=None):
    """Names of uninterpreted constants occurring in a z3 term."""
    acc = set() if acc is None else acc
    seen = set()
    stack = [t]
    while stack:
        x = stack.pop()
        k = x.get_id()
        if k in seen:
            continue
        seen.add(k)
        if z3.is_const(x) and x.decl().kind() == z3.Z3_OP_UNINTERPRETED:
            acc.add(x.decl().name())
        else:
            stack.extend(x.children())
    return acc
