"""Environment models (every one is listed as a stub in the evidence of the checks that use it)."""
import math
import types

import numpy as np
import z3

from .core import Sym, CSym, Ctx, qval, Unsupported


# ----------------------------------------------------------------------------- FFT
def _twiddle(j, k, n):
    """(cos, sin) of 2*pi*j*k/n as exact values; n in {1,2,4,8}."""
    r = (j * k) % n
    if n in (1, 2, 4) or (8 % n == 0 and (r * 8 // n) % 2 == 0):
        ang = 2 * math.pi * r / n
        return round(math.cos(ang)), round(math.sin(ang))
    if n == 8:
        c = Ctx.cur
        h = c.notes.get("sqrt_half")
        if h is None:
            hv = z3.Real("sqrt_half")
            c.assume(z3.And(hv > 0, hv * hv == z3.RealVal("1/2")))
            h = Sym(hv)
            c.notes["sqrt_half"] = h
        sgn = {1: (1, 1), 3: (-1, 1), 5: (-1, -1), 7: (1, -1)}[r]
        return h * sgn[0], h * sgn[1]
    raise Unsupported(f"exact DFT only for n in 1,2,4,8 (got {n})")


def sym_rfft(x, n=None, axis=-1, norm=None, **kw):
    x = np.asarray(x)
    if x.dtype != object:
        return np.fft.rfft(x, n=n, axis=axis, norm=norm)
    if x.ndim != 1:
        raise Unsupported("rfft model is 1-D")
    m = len(x)
    n = m if n is None else int(n)
    out = np.empty(n // 2 + 1, dtype=object)
    for k in range(n // 2 + 1):
        re, im = Sym(z3.RealVal(0)), Sym(z3.RealVal(0))
        for j in range(min(m, n)):      # zero padding / truncation as numpy does
            c, s = _twiddle(j, k, n)
            if not (isinstance(c, int) and c == 0):
                re = re + x[j] * c
            if not (isinstance(s, int) and s == 0):
                im = im - x[j] * s
        out[k] = CSym(re, im)
    return out


def sym_irfft(X, n=None, axis=-1, norm=None, **kw):
    X = np.asarray(X)
    if X.dtype != object:
        return np.fft.irfft(X, n=n, axis=axis, norm=norm)
    nb = len(X)
    n = 2 * (nb - 1) if n is None else int(n)
    out = np.empty(n, dtype=object)
    for j in range(n):
        acc = Sym(z3.RealVal(0))
        for k in range(n // 2 + 1):
            Xk = X[k] if isinstance(X[k], CSym) else CSym(Sym(qval(np.real(X[k]))) if not isinstance(X[k], Sym) else X[k], 0)
            c, s = _twiddle(j, k, n)
            if k == 0 or (n % 2 == 0 and k == n // 2):
                # imaginary part of DC / Nyquist bins is discarded by irfft
                if not (isinstance(c, int) and c == 0):
                    acc = acc + Xk.re * c
            else:
                t = Sym(z3.RealVal(0))
                if not (isinstance(c, int) and c == 0):
                    t = t + Xk.re * c
                if not (isinstance(s, int) and s == 0):
                    t = t - Xk.im * s
                acc = acc + t * 2
        out[j] = acc / n
    return out


def opaque_rfft(x, n=None, axis=-1, norm=None, **kw):
    """Opaque spectrum: bin k of the n-point transform of an m-sample input is (re_{n,m,k}(x), im_{n,m,k}(x))
    with re/im uninterpreted functions of the whole input vector - any n; used where only structure matters."""
    x = np.asarray(x)
    if x.dtype != object:
        return np.fft.rfft(x, n=n, axis=axis, norm=norm)
    m = len(x)
    n = m if n is None else int(n)
    args = [z3.simplify(Sym.lift(v)) for v in x[:min(m, n)]]
    mm = len(args)
    out = np.empty(n // 2 + 1, dtype=object)
    for k in range(n // 2 + 1):
        fr = z3.Function(f"dft_re_{n}_{mm}_{k}", *([z3.RealSort()] * (mm + 1)))
        fi = z3.Function(f"dft_im_{n}_{mm}_{k}", *([z3.RealSort()] * (mm + 1)))
        out[k] = CSym(Sym(fr(*args)), Sym(fi(*args)))
    return out


def make_fft_module(opaque=False):
    m = types.ModuleType("numpy.fft")
    m.rfft = opaque_rfft if opaque else sym_rfft
    m.irfft = sym_irfft
    m.rfftfreq = np.fft.rfftfreq
    m.fft = None
    return m


# ----------------------------------------------------------------------------- taper
def sym_tukey(n, alpha=0.5, sym=True):
    """Arbitrary taper: fresh symbols t_j in [0,1], identical for identical (n, alpha) on a path."""
    c = Ctx.cur
    cache = c.notes.setdefault("tukey", {})
    key = (int(n), repr(alpha))
    if key not in cache:
        w = np.empty(n, dtype=object)
        tag = f"taper{len(cache)}_{n}"
        for j in range(n):
            t = z3.Real(f"{tag}_{j}")
            c.assume(z3.And(t >= 0, t <= 1))
            w[j] = Sym(t)
        cache[key] = w
    return cache[key].copy()


def ones_tukey(n, alpha=0.5, sym=True):
    return np.ones(n)


# ----------------------------------------------------------------------------- peaks
def find_peaks_model(x, height=None, **kw):
    """Transcription of scipy.signal._peak_finding_utils._local_maxima_1d (+ optional `height`)."""
    for k, v in kw.items():
        if v is not None:
            raise Unsupported(f"find_peaks kwarg {k} not modelled")
    n = len(x)
    mids = []
    i = 1
    imax = n - 1
    while i < imax:
        if x[i - 1] < x[i]:
            ahead = i + 1
            while ahead < imax and x[ahead] == x[i]:
                ahead += 1
            if x[ahead] < x[i]:
                mids.append((i + ahead - 1) // 2)
                i = ahead
        i += 1
    if height is not None:
        mids = [m for m in mids if x[m] >= height]
    return np.array(mids, dtype=int), {}


def argrel_model(comparator_name):
    """Transcription of scipy.signal.argrelextrema (argrelmax / argrelmin): strict comparison with the `order` neighbours on
    each side along `axis`, mode 'clip' (an edge sample is compared with itself and can never be an extremum) or 'wrap'."""
    def argrel(data, axis=0, order=1, mode="clip"):
        x = np.asarray(data)
        if x.dtype != object:
            import scipy.signal
            return getattr(scipy.signal, comparator_name)(x, axis=axis, order=order, mode=mode)
        if int(order) < 1:
            raise ValueError("Order must be an int >= 1")
        x2 = np.moveaxis(x, axis, -1)
        n = x2.shape[-1]
        hits = []
        for idx in np.ndindex(*x2.shape[:-1]):
            row = x2[idx]
            for i in range(n):
                ok = True
                for sh in range(1, int(order) + 1):
                    for j in (i - sh, i + sh):
                        jj = j % n if mode == "wrap" else min(max(j, 0), n - 1)
                        ok = ok and bool(row[i] > row[jj] if comparator_name == "argrelmax" else row[i] < row[jj])
                        if not ok:
                            break
                    if not ok:
                        break
                if ok:
                    hits.append(idx + (i,))
        if not hits:
            return tuple(np.array([], dtype=int) for _ in range(x.ndim))
        arr = np.array(hits, dtype=int)
        # columns back in the original axis order
        cols = list(range(x.ndim))
        order_axes = [a for a in range(x.ndim) if a != (axis % x.ndim)] + [axis % x.ndim]
        out = [None] * x.ndim
        for pos, a in enumerate(order_axes):
            out[a] = arr[:, pos]
        key = np.lexsort(tuple(out[a] for a in reversed(range(x.ndim))))
        return tuple(out[a][key] for a in range(x.ndim))
    return argrel


# ----------------------------------------------------------------------------- detrend / filter
def sym_detrend(data, axis=-1, type="linear", bp=0, overwrite_data=False):
    """Closed-form least squares removal (constant / linear) - same projector scipy computes."""
    x = np.asarray(data)
    if x.dtype != object:
        import scipy.signal
        return scipy.signal.detrend(x, axis=axis, type=type, bp=bp)
    n = len(x)
    if type in ("constant", "c"):
        mean = sum(x[1:], x[0]) / n
        return np.array([v - mean for v in x], dtype=object)
    if type in ("linear", "l"):
        # fit a + b*t over t = 1..n / n (scipy's regressor); result independent of parametrisation
        ts = [qval(j) for j in range(n)]
        st = sum(range(n))
        stt = sum(j * j for j in range(n))
        sx = sum(x[1:], x[0])
        stx = sum((x[j] * j for j in range(1, n)), x[0] * 0)
        den = n * stt - st * st
        if den == 0:
            return np.array([v - sx / n for v in x], dtype=object)
        b = (stx * n - sx * st) / den
        a = (sx - b * st) / n
        return np.array([x[j] - (a + b * j) for j in range(n)], dtype=object)
    raise ValueError("Trend type must be 'linear' or 'constant'.")


class OpaqueFilter:
    """butter(...) result: remembers its configuration; sosfiltfilt applies an uninterpreted
    per-sample operator B_cfg,n,j(x_0..x_{n-1}) (one z3 function per output sample)."""

    def __init__(self, order, wn, btype, fs, form="sos"):
        self.cfg = (order, repr(wn), btype, repr(fs))
        self.form = form

    def __iter__(self):
        # butter(..., output="ba") is unpacked into (b, a): both halves stand for the same design
        return iter((self, self))


def opaque_butter(order, wn, btype="low", analog=False, output="ba", fs=None):
    return OpaqueFilter(order, wn, btype, fs, form=output)


_FILTER_IDS = {}


def opaque_sosfiltfilt(sos, x, axis=-1, padtype="odd", padlen=None):
    x = np.asarray(x)
    if x.dtype != object:
        x = x.astype(object)
    n = len(x)
    form = getattr(sos, "form", "sos")
    fid = _FILTER_IDS.setdefault((sos.cfg, form), len(_FILTER_IDS))
    out = np.empty(n, dtype=object)
    args = [Sym.lift(v) for v in x]
    for j in range(n):
        # the zero-phase second-order-section cascade is one operator family; any other realisation of the filter (transfer
        # function form, one-pass filtering) is a different, equally opaque, family: terms differ and the replay decides
        f = z3.Function(f"B{'' if form == 'sos' else form}{fid}_{n}_{j}", *([z3.RealSort()] * (n + 1)))
        out[j] = Sym(f(*args))
    Ctx.cur.notes.setdefault("filters", []).append((sos.cfg, n))
    return out


# ----------------------------------------------------------------------------- scipy.signal module
def make_signal_modules(find_peaks=find_peaks_model, tukey=sym_tukey, detrend=sym_detrend,
                        butter=opaque_butter, sosfiltfilt=opaque_sosfiltfilt):
    import scipy.signal
    ss = types.ModuleType("scipy.signal")
    for k in ("zpk2tf", "freqs", "freqs_zpk"):
        if hasattr(scipy.signal, k):
            setattr(ss, k, getattr(scipy.signal, k))
    ss.find_peaks = find_peaks
    ss.detrend = detrend
    ss.butter = butter
    ss.sosfiltfilt = sosfiltfilt
    ss.argrelmax = argrel_model("argrelmax")
    ss.argrelmin = argrel_model("argrelmin")
    ss.filtfilt = lambda b, a, x, *k, **kw: sosfiltfilt(OpaqueFilter(*[eval(v) if i in (1, 3) else v for i, v in enumerate(b.cfg)], form="ba-filtfilt") if isinstance(b, OpaqueFilter) else b, x)
    ss.sosfilt = lambda sos, x, *k, **kw: sosfiltfilt(OpaqueFilter(*[eval(v) if i in (1, 3) else v for i, v in enumerate(sos.cfg)], form="one-pass"), x)
    ss.lfilter = lambda b, a, x, *k, **kw: sosfiltfilt(OpaqueFilter(*[eval(v) if i in (1, 3) else v for i, v in enumerate(b.cfg)], form="one-pass-ba"), x)
    ssw = types.ModuleType("scipy.signal.windows")
    ssw.tukey = tukey
    ss.windows = ssw
    return ss, ssw
