"""Clean-process side of replays: `python -m symx.replay <Cxx> replay|validate <specs.json>`.

Runs harness.<Cxx>.replay(spec) / .validate(spec) against the *unshimmed* library: real numpy, scipy,
compiled numba kernels, hvsrpy imported normally from the working tree of the repository."""
import importlib
import json
import os
import sys
import traceback
import warnings


def main():
    pid, mode, path = sys.argv[1:4]
    warnings.simplefilter("ignore")
    import logging
    logging.getLogger("hvsrpy").addHandler(logging.NullHandler())
    logging.getLogger("hvsrpy").propagate = False
    repo = os.environ.get("HVSRPY_REPO", "/repo")
    sys.path.insert(0, repo)
    specs = json.load(open(path))
    mod = importlib.import_module("harness." + pid)
    fn = getattr(mod, "replay" if mode == "replay" else "validate")
    out = []
    for s in specs:
        try:
            r = fn(s)
        except BaseException as e:   # noqa
            r = {"reproduced": False, "ok": False, "error": f"{type(e).__name__}: {e}", "trace": traceback.format_exc()[-1200:]}
        out.append(r)
    sys.stdout.flush()
    print("\nREPLAY-RESULT " + json.dumps(out, default=str))


if __name__ == "__main__":
    main()
