"""C01 - HVSR curves equal the defined spectral ratio for every combination method.

O1 (structure): the real process() pipeline (settings -> taper -> zero-padded rfft -> |.| -> combine -> smooth
    -> divide -> result object) runs on symbolic three-component samples with an arbitrary symbolic taper; every
    output cell must equal  Smooth(combine_spec(|F(t*ns)|, |F(t*ew)|)) / Smooth(|F(t*vt)|)  built independently
    here from a 9-line reference table (|.| and sqrt uninterpreted; Smooth = the operator proved in C02).
O2 (stage lemmas, exact sqrt): positive homogeneity of |.| and of every registered combine function, and the
    closed form combine(A*s, B*s) = combine_spec(|A|,|B|)*s.
O3 (corollaries): common-factor invariance / linear / inverse scaling of the ratio from O1+O2 (issued as queries
    on the specification terms with the O2 instances as hypotheses).
"""
import itertools

import numpy as np
import z3

from symx import loader, models
from symx.core import Sym, CSym, Ctx, symarray, qval, is_nan, Settings, UF_MAG, cosd, sind, OutsideClaim
from symx.report import fl, concretiser, real_witness
from harness import pipeline as PP

FUNCTIONS_Q = ["processing.process", "processing.traditional_hvsr_processing", "processing.traditional_single_azimuth_hvsr_processing",
               "processing.traditional_rotdpp_hvsr_processing", "processing.azimuthal_hvsr_processing",
               "processing.diffuse_field_hvsr_processing", "processing._rpds_single_component", "processing.arithmetic_mean",
               "processing.squared_average", "processing.geometric_mean", "processing.total_horizontal_energy",
               "processing.maximum_horizontal_value", "processing.single_azimuth", "processing.prepare_fft_settings", "processing.nextpow2",
               "timeseries.TimeSeries.window", "seismic_recording_3c.SeismicRecording3C.window",
               "settings.HvsrTraditionalProcessingSettings.__init__"]
STUBS = ["numpy.fft.rfft -> exact DFT (n in {2,4,8}) or opaque spectrum symbols (n = 16)", "scipy.signal.windows.tukey -> arbitrary taper t_j in [0,1]",
         "processing.nextpow2 floor lowered from 2**15 to 4/16 by wrapping the real function", "|.| of a complex bin and sqrt uninterpreted (exact in the stage lemmas)",
         "smoothing: the real interpreted operators on a concrete grid (their identity with the published kernels is C02)",
         "scipy.signal.find_peaks -> returns no peaks (the result object is constructed, its peaks are not examined here; C08 does)"]
ASSUMPTIONS = ["floats read as reals (FFT rounding outside the claim)", "centre frequencies on non-empty windows (an empty window gives 0/0 = nan in the library: degenerate path)"]
OUTSIDE = ["n_fft > 16, more than 3 samples / 2 records per instance", "tapers other than tukey (NotImplementedError by design)", "FFT rounding"]
BOUNDS = {"quick": {"samples": 3, "n_fft": [4, 16], "records": "1-2", "centre_frequencies": 3, "azimuths": 2, "operators": 7},
          "thorough": {"samples": "3-4", "n_fft": [4, 8, 16], "records": "1-3", "centre_frequencies": 3, "azimuths": "2-3", "operators": 7}}
INSTANCE_TIMEOUT = {"quick": 230, "thorough": 700}
DT = 0.5
OPS = ["konno_and_ohmachi", "parzen", "savitzky_and_golay", "linear_rectangular", "log_rectangular", "linear_triangular", "log_triangular"]
CFG = {   # n_fft -> (centre frequencies, {operator: bandwidth})
    4: ([0.5, 1.0], {"konno_and_ohmachi": 5.0, "parzen": 1.5, "linear_rectangular": 1.2, "log_rectangular": 0.7,
                     "linear_triangular": 1.5, "log_triangular": 0.9}),
    8: ([0.25, 0.5, 0.75], {"konno_and_ohmachi": 8.0, "parzen": 1.0, "linear_rectangular": 0.6, "log_rectangular": 0.7,
                            "linear_triangular": 0.8, "log_triangular": 0.9}),
    16: ([0.375, 0.5, 0.625], {"konno_and_ohmachi": 12.0, "parzen": 0.8, "savitzky_and_golay": 5, "linear_rectangular": 0.3,
                               "log_rectangular": 0.25, "linear_triangular": 0.4, "log_triangular": 0.3}),
}


def LD(nfft):
    return PP.PL(floor=nfft, key="opaque" if nfft == 16 else "exact", opaque_fft=(nfft == 16))


def functions_encoded():
    return LD(4).functions_encoded(FUNCTIONS_Q)


def instances(tier):
    Ld = LD(4)
    P = Ld["processing"]
    out = []
    ffts = [4, 16] if tier == "quick" else [4, 8, 16]
    for key in P.COMBINE_HORIZONTAL_REGISTER:
        for nfft in ffts:
            if key == "maximum_horizontal_value" and nfft == 16:
                continue
            nrecs = [2] if (tier == "quick" and key != "maximum_horizontal_value") else ([1] if key == "maximum_horizontal_value" and tier == "quick" else [1, 2])
            for nrec in nrecs:
                out.append({"name": f"trad_{key}_n{nfft}_r{nrec}", "func": "run_traditional", "kwargs": {"method": key, "nfft": nfft, "nrec": nrec}})
    for key, fn in P.TRADITIONAL_PROCESSING_REGISTER.items():
        if fn is P.traditional_single_azimuth_hvsr_processing:
            for nfft in ffts:
                out.append({"name": f"single_{key}_n{nfft}", "func": "run_single", "kwargs": {"method": key, "nfft": nfft}})
        elif fn is P.traditional_rotdpp_hvsr_processing:
            for p in ([0, 50, 100] if tier == "quick" else [0, 30, 50, 100]):
                out.append({"name": f"rotdpp_p{p}", "func": "run_rotdpp", "kwargs": {"method": key, "p": p, "nfft": 4}})
        elif fn is not P.traditional_hvsr_processing:
            out.append({"name": f"unknown_register_entry_{key}", "func": "run_unknown", "kwargs": {"key": key}})
        elif key not in P.COMBINE_HORIZONTAL_REGISTER:
            out.append({"name": f"unknown_register_entry_{key}", "func": "run_unknown", "kwargs": {"key": key}})
    for nfft in ffts:
        out.append({"name": f"azimuthal_n{nfft}", "func": "run_azimuthal", "kwargs": {"nfft": nfft}})
        for nrec in (1, 2):
            out.append({"name": f"diffuse_n{nfft}_r{nrec}", "func": "run_diffuse", "kwargs": {"nfft": nfft, "nrec": nrec}})
    # centre frequencies requested in descending order (e.g. a period-ordered request)
    out.append({"name": "trad_geometric_mean_n16_descending_fcs", "func": "run_traditional", "kwargs": {"method": "geometric_mean", "nfft": 16, "nrec": 1, "reverse_fcs": True}})
    out.append({"name": "lemmas", "func": "run_lemmas", "kwargs": {}})
    out.append({"name": "corollaries", "func": "run_corollaries", "kwargs": {}})
    # the curve is the ratio for the recordings AS THEY ARE: process, change in place through a public method, process again
    for m, op in (("geometric_mean", "detrend"), ("single_azimuth", "window"), ("azimuthal", "detrend")):
        out.append({"name": f"process_{op}_process_{m}", "func": "run_process_change_process", "kwargs": {"method": m, "op": op}})
    return out


# ----------------------------------------------------------------------------- helpers
def process(P, recs, st):
    """process(); a negative smoothed ratio (possible with Savitzky-Golay's negative coefficients) makes the result
    constructor raise ValueError - no curve is returned, so the path is outside what the property speaks about."""
    try:
        return P.process(recs, st)
    except ValueError as e:
        if "must be >= 0" in str(e):
            raise OutsideClaim(str(e))
        raise


def ops_for(nfft):
    return [op for op in OPS if op in CFG[nfft][1]]


def run_process_change_process(rep, tier, method, op):
    from harness import C04          # (C04 imports this module: imported lazily)
    return C04.run_process_orient_process(rep, tier, method, op=op)


def witness_fn(kind, recs_samples, extra):
    def w(m):
        val = concretiser(m)
        d = {"kind": kind, "records": [{c: [val(x) for x in s[c]] for c in ("ns", "ew", "vt")} for s in recs_samples]}
        d.update({k: (val(v) if isinstance(v, Sym) else v) for k, v in extra.items()})
        tap = Ctx.cur.notes.get("tukey", {}) if Ctx.cur is not None else {}
        d["taper"] = {str(k[0]): [val(x) for x in v] for k, v in tap.items()}
        d["taper"].update({f"{k[0]}:{float(k[1])}": [val(x) for x in v] for k, v in tap.items()})      # per (length, shape parameter)
        return d
    return w


def cells_differ(got, want):
    bad = []
    g = np.asarray(got, dtype=object)
    w = np.asarray(want, dtype=object)
    if g.shape != w.shape:
        return [z3.BoolVal(True)]
    for a, b in zip(g.flat, w.flat):
        bad.append(Sym.lift(a) != Sym.lift(b))
    return bad


def spec_traditional(Ld, ctx, method, op, bw, fcs, nfft, recs_samples, width, L):
    frq = np.fft.rfftfreq(nfft, DT)
    taper = PP.taper_of(ctx, L, width)
    rfft = Ld.np.fft.rfft
    rows_h, rows_v = [], []
    for s in recs_samples:
        mg = {}
        for c in ("ns", "ew", "vt"):
            F = rfft(np.array([s[c][j] * taper[j] for j in range(L)], dtype=object), n=nfft)
            mg[c] = [x.mag() for x in F]
        rows_h.append([PP.combine_spec(method, a, b) for a, b in zip(mg["ns"], mg["ew"])])
        rows_v.append(mg["vt"])
    sm = PP.smooth_rows(Ld, op, frq, rows_h + rows_v, fcs, bw)
    n = len(recs_samples)
    want = np.empty((n, len(fcs)), dtype=object)
    for i in range(n):
        for j in range(len(fcs)):
            want[i, j] = sm[i, j] / sm[n + i, j]
    return want


def run_traditional(rep, tier, method, nfft, nrec, reverse_fcs=False):
    Ld = LD(nfft)
    P, S = Ld["processing"], Ld["settings"]
    fcs, bws = CFG[nfft]
    if reverse_fcs:
        fcs = list(reversed(fcs))
    L = 3
    fcs_all = fcs
    for op in ops_for(nfft):
        bw = bws[op]
        # Savitzky-Golay has negative coefficients: every cell forks on its sign (negative => constructor raises);
        # one centre frequency keeps that instance small
        fcs = fcs_all[1:2] if op == "savitzky_and_golay" else fcs_all

        def run(ctx, op=op, bw=bw, fcs=fcs):
            ss = [PP.samples(f"r{i}", L, ctx) for i in range(nrec)]
            recs = [PP.mkrec(Ld, ctx, f"r{i}", L, DT, comps=ss[i]) for i in range(nrec)]
            st = S.HvsrTraditionalProcessingSettings(method_to_combine_horizontals=method, **PP.settings_kwargs(op, bw, fcs, width=0.2))
            h = process(P, recs, st)
            want = spec_traditional(Ld, ctx, method, op, bw, fcs, nfft, ss, 0.2, L)
            return ss, h, want, st

        for ctx, (ss, h, want, st) in rep.explore(run, max_paths=200 if tier == "quick" else 2000, timeout_ms=8000):
            rep.reachable(ctx)
            W = witness_fn("traditional", ss, {"method": method, "op": op, "bw": bw, "fcs": fcs, "nfft": nfft})
            rep.prove(ctx, f"{method}/{op}: every cell = Smooth(combine(|F ns|,|F ew|)) / Smooth(|F vt|)", cells_differ(h.amplitude, want),
                      witness=W, key=f"ratio-{PP.FAMILY.get(method, method)}")
            rep.obligations += 1
            okf = list(map(float, h.frequency)) == list(map(float, fcs)) and st.fft_settings["n"] >= L and h.amplitude.shape == (nrec, len(fcs))
            rep.discharged += int(okf)
            if not okf:
                rep.candidate(W(ctx.model()[1]), "result frequencies / shape / fft length", key="frequency-or-shape")
            if nfft != 16 and len(rep.validations) < 4:
                r, m = ctx.model()
                if r == z3.sat:
                    env = real_witness(ctx, model=m, tries=300)
                    if env is not None:
                        spec = W(env)
                        val = concretiser(env)
                        spec["expect"] = [[val(x) for x in row] for row in h.amplitude]
                        spec["instance"] = rep.name
                        rep.validation(spec)
                        rep.sample({"method": method, "op": op, "records": spec["records"], "hvsr": spec["expect"]})


def spec_single(Ld, ctx, az_term, op, bw, fcs, nfft, s, width, L):
    frq = np.fft.rfftfreq(nfft, DT)
    taper = PP.taper_of(ctx, L, width)
    rfft = Ld.np.fft.rfft
    c, sn = cosd(az_term), sind(az_term)
    hseries = [s["ns"][j] * c + s["ew"][j] * sn for j in range(L)]
    Fh = rfft(np.array([hseries[j] * taper[j] for j in range(L)], dtype=object), n=nfft)
    Fv = rfft(np.array([s["vt"][j] * taper[j] for j in range(L)], dtype=object), n=nfft)
    return [x.mag() for x in Fh], [x.mag() for x in Fv], frq


def run_single(rep, tier, method, nfft):
    Ld = LD(nfft)
    P, S = Ld["processing"], Ld["settings"]
    fcs, bws = CFG[nfft]
    L = 3
    for op in ops_for(nfft):
        bw = bws[op]

        def run(ctx, op=op, bw=bw):
            s = PP.samples("r0", L, ctx)
            az = Sym.var("az", ctx)
            rec = PP.mkrec(Ld, ctx, "r0", L, DT, comps=s)
            st = S.HvsrTraditionalSingleAzimuthProcessingSettings(method_to_combine_horizontals=method, azimuth_in_degrees=az,
                                                                  **PP.settings_kwargs(op, bw, fcs, width=0.2))
            h = process(P, [rec], st)
            mh, mv, frq = spec_single(Ld, ctx, az.e, op, bw, fcs, nfft, s, 0.2, L)
            sm = PP.smooth_rows(Ld, op, frq, [mh, mv], fcs, bw)
            want = np.array([[sm[0, j] / sm[1, j] for j in range(len(fcs))]], dtype=object)
            return s, az, h, want

        for ctx, (s, az, h, want) in rep.explore(run, max_paths=100):
            rep.reachable(ctx)
            W = witness_fn("single", [s], {"method": method, "op": op, "bw": bw, "fcs": fcs, "nfft": nfft, "azimuth": az})
            rep.prove(ctx, f"{method}/{op}: cell = Smooth(|F(t (ns cos a + ew sin a))|) / Smooth(|F(t vt)|)", cells_differ(h.amplitude, want), witness=W, key="ratio-single-azimuth")


def run_rotdpp(rep, tier, method, p, nfft):
    Ld = LD(nfft)
    P, S = Ld["processing"], Ld["settings"]
    fcs, bws = CFG[nfft]
    L = 3
    op, bw = "linear_rectangular", bws["linear_rectangular"]

    def run(ctx):
        s = PP.samples("r0", L, ctx)
        azs = [Sym.var("az0", ctx), Sym.var("az1", ctx)]
        rec = PP.mkrec(Ld, ctx, "r0", L, DT, comps=s)
        st = S.HvsrTraditionalRotDppProcessingSettings(method_to_combine_horizontals=method, azimuths_in_degrees=azs,
                                                       ppth_percentile_for_rotdpp_computation=p, **PP.settings_kwargs(op, bw, fcs, width=0.2))
        h = process(P, [rec], st)
        rows = []
        for a in azs:
            mh, mv, frq = spec_single(Ld, ctx, a.e, op, bw, fcs, nfft, s, 0.2, L)
            rows.append(mh)
        sm = PP.smooth_rows(Ld, op, frq, rows + [mv], fcs, bw)
        want = []
        for j in range(len(fcs)):
            a, b = sm[0, j].e, sm[1, j].e
            lo, hi = z3.If(a <= b, a, b), z3.If(a <= b, b, a)
            pct = lo + (hi - lo) * qval(p) / 100      # numpy's linear interpolation between the two order statistics
            want.append(Sym(pct) / sm[2, j])
        return s, azs, h, np.array([want], dtype=object)

    for ctx, (s, azs, h, want) in rep.explore(run, max_paths=300):
        rep.reachable(ctx)
        W = witness_fn("rotdpp", [s], {"method": method, "op": op, "bw": bw, "fcs": fcs, "nfft": nfft, "p": p, "az0": azs[0], "az1": azs[1]})
        rep.prove(ctx, f"rotdpp p={p}: cell = percentile_p over azimuths of Smooth(|F single azimuth|) / Smooth(|F vt|)", cells_differ(h.amplitude, want),
                  witness=W, key="ratio-rotdpp")


def run_azimuthal(rep, tier, nfft):
    Ld = LD(nfft)
    P, S = Ld["processing"], Ld["settings"]
    fcs, bws = CFG[nfft]
    L = 3
    for op in ops_for(nfft)[:3 if tier == "quick" else 7]:
        bw = bws[op]

        def run(ctx, op=op, bw=bw):
            s = PP.samples("r0", L, ctx)
            azs = [Sym.var("az0", ctx, lo=0, hi=180), Sym.var("az1", ctx, lo=0, hi=180)]
            rec = PP.mkrec(Ld, ctx, "r0", L, DT, comps=s)
            st = S.HvsrAzimuthalProcessingSettings(azimuths_in_degrees=azs, **PP.settings_kwargs(op, bw, fcs, width=0.2))
            res = process(P, [rec], st)
            wants = []
            for a in azs:
                mh, mv, frq = spec_single(Ld, ctx, a.e, op, bw, fcs, nfft, s, 0.2, L)
                sm = PP.smooth_rows(Ld, op, frq, [mh, mv], fcs, bw)
                wants.append(np.array([[sm[0, j] / sm[1, j] for j in range(len(fcs))]], dtype=object))
            return s, azs, res, wants

        for ctx, (s, azs, res, wants) in rep.explore(run, max_paths=100):
            rep.reachable(ctx)
            W = witness_fn("azimuthal", [s], {"op": op, "bw": bw, "fcs": fcs, "nfft": nfft, "az0": azs[0], "az1": azs[1]})
            bad = []
            if len(res.hvsrs) != 2:
                bad = [z3.BoolVal(True)]
            else:
                for hv, w_ in zip(res.hvsrs, wants):
                    bad += cells_differ(hv.amplitude, w_)
                bad += [Sym.lift(a) != Sym.lift(b) for a, b in zip(res.azimuths, azs)]
            rep.prove(ctx, f"azimuthal/{op}: result is the list of single-azimuth ratios, azimuth by azimuth", bad, witness=W, key="ratio-azimuthal")


def run_diffuse(rep, tier, nfft, nrec):
    Ld = LD(nfft)
    P, S = Ld["processing"], Ld["settings"]
    fcs, bws = CFG[nfft]
    L = 3
    for op in ops_for(nfft)[:3 if tier == "quick" else 7]:
        bw = bws[op]

        def run(ctx, op=op, bw=bw):
            ss = [PP.samples(f"r{i}", L, ctx) for i in range(nrec)]
            recs = [PP.mkrec(Ld, ctx, f"r{i}", L, DT, comps=ss[i]) for i in range(nrec)]
            st = S.HvsrDiffuseFieldProcessingSettings(**PP.settings_kwargs(op, bw, fcs, width=0.2, policy="keeping_majority_time_step"))
            res = process(P, recs, st)
            taper = PP.taper_of(ctx, L, 0.2)
            frq = np.fft.rfftfreq(nfft, DT)
            rfft = Ld.np.fft.rfft
            pw = {}
            for c in ("ns", "ew", "vt"):
                acc = None
                for s in ss:
                    F = rfft(np.array([s[c][j] * taper[j] for j in range(L)], dtype=object), n=nfft)
                    pk = [x.re * x.re + x.im * x.im for x in F]
                    acc = pk if acc is None else [a + b for a, b in zip(acc, pk)]
                pw[c] = acc
            sm = PP.smooth_rows(Ld, op, frq, [[a + b for a, b in zip(pw["ns"], pw["ew"])], pw["vt"]], fcs, bw)
            want = [sm[0, j] / sm[1, j] for j in range(len(fcs))]
            return ss, res, want

        for ctx, (ss, res, want) in rep.explore(run, max_paths=100, timeout_ms=3000):
            rep.reachable(ctx)
            W = witness_fn("diffuse", ss, {"op": op, "bw": bw, "fcs": fcs, "nfft": nfft})
            bad = []
            for g, w_ in zip(res.amplitude, want):
                arg = PP.sqrt_arg(g)
                bad.append(z3.BoolVal(True) if arg is None else arg != w_.e)
            if len(res.amplitude) != len(want):
                bad = [z3.BoolVal(True)]
            rep.prove(ctx, f"diffuse field/{op}: cell^2 = Smooth(P_ns + P_ew) / Smooth(P_vt) (Welch constants cancel)", bad, witness=W, key="ratio-diffuse", timeout_ms=40000, nlsat_first=True)


def run_unknown(rep, tier, key):
    rep.obligations += 1
    rep.inconclusive.append(f"register entry '{key}' has no reference definition in the harness: not covered")


def run_lemmas(rep, tier):
    """Stage lemmas in exact-sqrt mode on the real combine functions (one bin)."""
    Ld = LD(4)
    P = Ld["processing"]
    Settings.sqrt_mode, Settings.mag_mode = "exact", "exact"
    try:
        for key, fn in P.COMBINE_HORIZONTAL_REGISTER.items():
            def run(ctx, fn=fn):
                a, b = Sym.var("a", ctx, lo=0), Sym.var("b", ctx, lo=0)
                c = Sym.var("c", ctx, pos=True)
                x = fn(np.array([a], dtype=object), np.array([b], dtype=object), None)[0]
                y = fn(np.array([a * c], dtype=object), np.array([b * c], dtype=object), None)[0]
                ref = PP.combine_spec(key, a, b)
                A, B = Sym.var("A", ctx), Sym.var("B", ctx)
                s = Sym.var("s", ctx, lo=0)
                z = fn(np.array([abs(A) * s], dtype=object), np.array([abs(B) * s], dtype=object), None)[0]
                zr = PP.combine_spec(key, abs(A), abs(B))
                return a, b, c, x, y, ref, z, zr, s

            for ctx, (a, b, c, x, y, ref, z, zr, s) in rep.explore(run, max_paths=40):
                rep.reachable(ctx)
                rep.prove(ctx, f"{key}: equals the reference definition (exact sqrt)", Sym.lift(x) != Sym.lift(ref), witness=lambda m: {"kind": "lemma", "name": key}, key=f"combine-{PP.FAMILY[key]}", timeout_ms=30000)
                rep.prove(ctx, f"{key}: positively homogeneous of degree 1", Sym.lift(y) != Sym.lift(x * c), witness=lambda m: {"kind": "lemma", "name": key}, key=f"combine-{PP.FAMILY[key]}", timeout_ms=30000)
                rep.prove(ctx, f"{key}: combine(|A| s, |B| s) = combine(|A|,|B|) s (closed form for proportional components)", Sym.lift(z) != Sym.lift(zr * s),
                          witness=lambda m: {"kind": "lemma", "name": key}, key=f"combine-{PP.FAMILY[key]}", timeout_ms=30000)

        def run_mag(ctx):
            re, im = Sym.var("re", ctx), Sym.var("im", ctx)
            c = Sym.var("c", ctx, pos=True)
            return CSym(re, im).mag(), CSym(re * c, im * c).mag(), CSym(-re, -im).mag(), c
        for ctx, (m1, m2, m3, c) in rep.explore(run_mag, max_paths=4):
            rep.reachable(ctx)
            rep.prove(ctx, "|.| positively homogeneous: |c z| = c |z|", m2.e != (m1 * c).e, witness=lambda m: {"kind": "lemma", "name": "mag"}, key="mag", timeout_ms=30000)
            rep.prove(ctx, "|.| even: |-z| = |z|", m3.e != m1.e, witness=lambda m: {"kind": "lemma", "name": "mag"}, key="mag", timeout_ms=30000)
    finally:
        Settings.sqrt_mode, Settings.mag_mode = "uf", "uf"
    # DFT model linear (exact n=4 and n=8)
    for n in (4, 8):
        def run_dft(ctx, n=n):
            x = symarray("x", (3,), ctx)
            y = symarray("y", (3,), ctx)
            al = Sym.var("alpha", ctx)
            Fx, Fy = models.sym_rfft(x, n=n), models.sym_rfft(y, n=n)
            Fz = models.sym_rfft(np.array([x[j] * al + y[j] for j in range(3)], dtype=object), n=n)
            return al, Fx, Fy, Fz
        for ctx, (al, Fx, Fy, Fz) in rep.explore(run_dft, max_paths=2):
            bad = []
            for a, b, c in zip(Fx, Fy, Fz):
                bad += [c.re.e != (a.re * al + b.re).e, c.im.e != (a.im * al + b.im).e]
            rep.prove(ctx, f"DFT model (n={n}) is linear", bad, witness=None, key="dft-linear", timeout_ms=30000)


def run_corollaries(rep, tier):
    """Scale laws of the specification term, with the O2 facts instantiated as hypotheses: for every method family the
    ratio is unchanged by a common factor, linear in a horizontal factor and inverse in a vertical factor."""
    Ld = LD(4)
    P = Ld["processing"]
    nfft, L = 4, 3
    fcs, bws = CFG[nfft]
    op, bw = "linear_triangular", bws["linear_triangular"]
    for key in P.COMBINE_HORIZONTAL_REGISTER:
        if key == "maximum_horizontal_value" and tier == "quick":
            pass

        def run(ctx, key=key):
            ch, cv = Sym.var("ch", ctx, pos=True), Sym.var("cv", ctx, pos=True)
            nb = nfft // 2 + 1
            # magnitudes of the unscaled spectra are arbitrary non-negative reals; by the |.| lemma the scaled ones are c*m
            mn, me, mv = symarray("mn", (nb,), ctx, nonneg=True), symarray("me", (nb,), ctx, nonneg=True), symarray("mv", (nb,), ctx, nonneg=True)
            frq = np.fft.rfftfreq(nfft, DT)
            fn = P.COMBINE_HORIZONTAL_REGISTER[key]
            h0 = fn(mn, me, None)
            h1 = fn(mn * ch, me * ch, None)
            hyp = []
            if PP.FAMILY[key] != "maximum" and PP.FAMILY[key] != "arithmetic":
                # homogeneity instances (proved in run_lemmas in exact mode) for the sqrt terms that occur
                for j in range(nb):
                    hyp.append(Sym.lift(h1[j]) == Sym.lift(h0[j] * ch))
            sm0 = PP.smooth_rows(Ld, op, frq, [list(h0), list(mv)], fcs, bw)
            sm1 = PP.smooth_rows(Ld, op, frq, [list(h1), list(mv * cv)], fcs, bw)
            bad = []
            for j in range(len(fcs)):
                r0 = sm0[0, j] / sm0[1, j]
                r1 = sm1[0, j] / sm1[1, j]
                bad.append(Sym.lift(r1) != Sym.lift(r0 * ch / cv))
            return ch, cv, hyp, bad

        for ctx, (ch, cv, hyp, bad) in rep.explore(run, max_paths=300):
            rep.reachable(ctx)
            rep.prove(ctx, f"{key}: ratio scales with (horizontal factor)/(vertical factor); a common factor cancels", z3.And(z3.And(hyp) if hyp else z3.BoolVal(True), z3.Or(bad)),
                      witness=None, key="scale-law", timeout_ms=40000)


# ----------------------------------------------------------------------------- concrete side
def _patched(spec):
    """real library with the same bounded environment: tukey -> the witness taper, nextpow2 floor -> n_fft."""
    import hvsrpy
    from hvsrpy import processing as P, timeseries as T
    tap = {int(k): np.array(v, dtype=float) for k, v in spec.get("taper", {}).items() if ":" not in str(k)}
    tap2 = {str(k): np.array(v, dtype=float) for k, v in spec.get("taper", {}).items() if ":" in str(k)}
    real_tukey = T.tukey

    def tukey(n, alpha=0.5, sym=True):
        k = f"{n}:{float(alpha)}"
        if k in tap2:
            return tap2[k].copy()
        return tap[n].copy() if n in tap else real_tukey(n, alpha=alpha)
    T.tukey = tukey
    real_np2 = P.nextpow2
    P.nextpow2 = lambda n, minimum_power_of_two=spec["nfft"]: real_np2(n, minimum_power_of_two)
    return hvsrpy, P, T, (real_tukey, real_np2)


def _restore(P, T, saved):
    T.tukey, P.nextpow2 = saved


def _records(hvsrpy, spec):
    return [hvsrpy.SeismicRecording3C(*[hvsrpy.TimeSeries(np.array(r[c], dtype=float), DT) for c in ("ns", "ew", "vt")]) for r in spec["records"]]


def _ref(spec, hvsrpy):
    """reference ratio on floats (numpy rfft + the library's own smoothing operator)."""
    from hvsrpy.smoothing import SMOOTHING_OPERATORS
    nfft, fcs, op, bw = spec["nfft"], np.array(spec["fcs"], dtype=float), spec["op"], spec["bw"]
    frq = np.fft.rfftfreq(nfft, DT)
    L = len(spec["records"][0]["ns"])
    tap = np.array(spec["taper"][str(L)], dtype=float)
    mag = lambda x: np.abs(np.fft.rfft(np.array(x, dtype=float) * tap, n=nfft))
    comb = {"arithmetic": lambda a, b: (a + b) / 2, "squared": lambda a, b: np.sqrt((a * a + b * b) / 2), "geometric": lambda a, b: np.sqrt(a * b),
            "energy": lambda a, b: np.sqrt(a * a + b * b), "maximum": np.maximum}
    sm = lambda rows: SMOOTHING_OPERATORS[op](frq, np.array(rows), fcs, bw)
    k = spec["kind"]
    if k == "traditional":
        f = comb[PP.FAMILY[spec["method"]]]
        hs = [f(mag(r["ns"]), mag(r["ew"])) for r in spec["records"]]
        vs = [mag(r["vt"]) for r in spec["records"]]
        s = sm(hs + vs)
        n = len(hs)
        return s[:n] / s[n:]
    r = spec["records"][0]
    sa = lambda a: mag(np.array(r["ns"]) * np.cos(np.radians(a)) + np.array(r["ew"]) * np.sin(np.radians(a)))
    if k == "single":
        s = sm([sa(spec["azimuth"]), mag(r["vt"])])
        return s[:1] / s[1:]
    if k == "rotdpp":
        s = sm([sa(spec["az0"]), sa(spec["az1"]), mag(r["vt"])])
        return np.array([np.percentile(s[:2], spec["p"], axis=0) / s[2]])
    if k == "azimuthal":
        out = []
        for a in (spec["az0"], spec["az1"]):
            s = sm([sa(a), mag(r["vt"])])
            out.append(s[0] / s[1])
        return np.array(out)
    if k == "diffuse":
        pw = lambda c: sum(np.abs(np.fft.rfft(np.array(rr[c], dtype=float) * tap, n=nfft)) ** 2 for rr in spec["records"])
        s = sm([pw("ns") + pw("ew"), pw("vt")])
        return np.array([np.sqrt(s[0] / s[1])])
    raise ValueError(k)


def _run_library(spec):
    hvsrpy, P, T, saved = _patched(spec)
    try:
        recs = _records(hvsrpy, spec)
        kw = dict(window_type_and_width=["tukey", 0.2], smoothing=dict(operator=spec["op"], bandwidth=spec["bw"], center_frequencies_in_hz=list(spec["fcs"])))
        k = spec["kind"]
        if k == "traditional":
            st = hvsrpy.HvsrTraditionalProcessingSettings(method_to_combine_horizontals=spec["method"], **kw)
        elif k == "single":
            st = hvsrpy.HvsrTraditionalSingleAzimuthProcessingSettings(method_to_combine_horizontals=spec["method"], azimuth_in_degrees=spec["azimuth"], **kw)
        elif k == "rotdpp":
            st = hvsrpy.HvsrTraditionalRotDppProcessingSettings(method_to_combine_horizontals=spec["method"], azimuths_in_degrees=[spec["az0"], spec["az1"]],
                                                                ppth_percentile_for_rotdpp_computation=spec["p"], **kw)
        elif k == "azimuthal":
            st = hvsrpy.HvsrAzimuthalProcessingSettings(azimuths_in_degrees=[spec["az0"], spec["az1"]], **kw)
        elif k == "diffuse":
            st = hvsrpy.HvsrDiffuseFieldProcessingSettings(**kw)
        res = hvsrpy.process(recs, st)
        if k == "azimuthal":
            return np.array([h.amplitude[0] for h in res.hvsrs])
        return np.atleast_2d(np.asarray(res.amplitude, dtype=float))
    finally:
        _restore(P, T, saved)


def replay(spec):
    if spec.get("what") == "process-orient-process":
        from harness import C04
        return C04.replay(spec)
    if spec["kind"] == "lemma":
        return {"reproduced": False, "detail": "stage lemma (no concrete pipeline input)"}
    import hvsrpy
    try:
        got = _run_library(spec)
    except Exception as e:   # noqa
        return {"reproduced": True, "key": f"raises-{type(e).__name__}", "detail": f"process() raised {type(e).__name__}: {e}"[:300]}
    want = _ref(spec, hvsrpy)
    if got.shape != want.shape or not np.allclose(got, want, rtol=1e-9, atol=1e-12, equal_nan=True):
        fam = PP.FAMILY.get(spec.get("method"), spec["kind"])
        return {"reproduced": True, "key": f"ratio-{fam}", "detail": f"{spec['kind']} {spec.get('method')} {spec['op']}: library {got.tolist()} vs definition {want.tolist()} on {spec['records']}"[:500]}
    return {"reproduced": False, "detail": "library agrees with the definition on this input"}


def validate(spec):
    got = _run_library(spec)
    want = np.array(spec["expect"], dtype=float)
    if got.shape != want.shape or not np.allclose(got, want, rtol=1e-8, atol=1e-10):
        return {"ok": False, "detail": f"{spec['kind']} {spec.get('method')} {spec['op']}: engine {want.tolist()} library {got.tolist()}"}
    return {"ok": True}
