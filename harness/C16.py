"""C16 - SESAME reliability and clarity verdicts match the 2004 guideline.

The real sesame.reliability / clarity / trim_curve / peak_index run on a symbolic mean curve exp(u_j), symbolic log-standard
deviations s_j >= 0, a frequency grid c*g with symbolic scale c > 0 (so the peak frequency sweeps all five threshold bands and
their edges under the solver), symbolic window length, window count and fn standard deviation, at all three verbosity levels.
On every solver-enumerated path each of the 3 + 6 (concrete) verdicts must be consistent with the criterion of the guideline
transcribed here on the peak of the mean curve within the search range (half-open bands [lo, hi) of the table; nothing is
asserted where the guideline leaves an edge open: f0 = 0.5 Hz in reliability iii, the closed/open interval ends of clarity i, ii, iv).
"""
import numpy as np
import z3

from symx import loader
from symx.core import Sym, Ctx, symarray, qval, is_nan, OutsideClaim, UF_EXP
from symx.report import fl, concretiser, real_witness

FUNCTIONS_Q = ["sesame.reliability", "sesame.clarity", "sesame.trim_curve", "sesame.peak_index", "hvsr_curve.HvsrCurve._find_peak_unbounded"]
STUBS = ["scipy.signal.find_peaks -> _local_maxima_1d transcription", "termcolor.colored / print -> no-ops (formatting is not the subject)",
         "exp/log: the mean curve is exp(u); exp(u +- s) = exp(u) exp(+-s) added as instances for the bins that occur"]
ASSUMPTIONS = ["floats as reals", "the peak of the mean curve within the search range is the one C08 defines (HvsrCurve._find_peak_bounded)"]
OUTSIDE = ["curves without a peak in the search range (the property quantifies over curves with a peak)", "more than 5-6 frequency points"]
BOUNDS = {"quick": {"frequency_points": 4, "grids": 2}, "thorough": {"frequency_points": "4-5", "grids": 4}}
INSTANCE_TIMEOUT = {"quick": 160, "thorough": 700}
GRIDS = {"e": [1, 5, 6, 30], "a": [1, 2, 3, 5], "b": [1, 1.5, 4, 9], "c": [1, 2, 3, 4, 6], "d": [1, 1.5, 2, 5, 9]}
_L = None


def L():
    global _L
    if _L is None:
        _L = loader.load(["sesame"])
        _L["sesame"].print = lambda *a, **k: None
    return _L


def functions_encoded():
    return L().functions_encoded(FUNCTIONS_Q)


def instances(tier):
    out = []
    # a call under the default (whole-curve) search range precedes the checked call in the same process: the verdicts of the
    # second call follow ITS search range (scheduled first: these instances are the slowest to reach their first result)
    for rng in ("lo", "hi"):
        out.append({"name": f"reliability_c_{rng}_after_default_range_call", "func": "run_reliability", "kwargs": {"grid": "c", "rng": rng, "prior": True}})
        out.append({"name": f"clarity_c_{rng}_after_default_range_call", "func": "run_clarity", "kwargs": {"grid": "c", "rng": rng, "prior": True}})
    grids = ["a", "b"] if tier == "quick" else ["a", "b", "c", "d"]
    for g in grids:
        for rng in ("none", "lo", "hi"):
            out.append({"name": f"reliability_{g}_{rng}", "func": "run_reliability", "kwargs": {"grid": g, "rng": rng}})
            out.append({"name": f"clarity_{g}_{rng}", "func": "run_clarity", "kwargs": {"grid": g, "rng": rng}})
    # a grid on which the bands (f0/4, f0) and (f0, 4 f0) can be empty
    out.append({"name": "clarity_e_none", "func": "run_clarity", "kwargs": {"grid": "e", "rng": "none"}})
    out.append({"name": "reliability_e_none", "func": "run_reliability", "kwargs": {"grid": "e", "rng": "none"}})
    out.append({"name": "monotone_reliability_ii", "func": "run_monotone", "kwargs": {"which": "ii"}})
    out.append({"name": "monotone_clarity_v", "func": "run_monotone", "kwargs": {"which": "v"}})
    return out


def mk_inputs(ctx, grid, rng, two_peaks=False):
    g = GRIDS[grid]
    n = len(g)
    c = Sym.var("c", ctx, pos=True)
    frq = np.array([c * x for x in g], dtype=object)
    u = [z3.Real(f"ln_m{j}") for j in range(n)]
    s = [Sym.var(f"s{j}", ctx, lo=0) for j in range(n)]
    mean = np.empty(n, dtype=object)
    for j in range(n):
        y = UF_EXP(u[j])
        ctx.assume(y > 0)
        mean[j] = Sym(y, lg=u[j])
    std = np.array(s, dtype=object)
    if two_peaks:
        # BOUND of the 'earlier call' instances: the mean curve has maxima at samples 1 and 3 (one of them outside the search range)
        ctx.assume(z3.And(u[1] > u[0], u[1] > u[2], u[3] > u[2], u[3] > u[4]))
        # witnesses: clearly separated maxima, moderate standard deviations and scale (shaping only, not an assumption)
        SHAPE[0] = [u[1] >= u[0] + qval(0.4), u[1] >= u[2] + qval(0.4), u[3] >= u[2] + qval(0.4), u[3] >= u[4] + qval(0.4), z3.Or(u[3] >= u[1] + qval(0.3), u[1] >= u[3] + qval(0.3))] + \
                   [z3.And(x >= -1, x <= 2) for x in u] + [z3.And(x.e >= qval(0.05), x.e <= 1) for x in s] + [z3.And(c.e >= qval(0.125), c.e <= 8)]
    else:
        SHAPE[0] = None
    # instances of exp(u +- s) = exp(u) exp(+-s), exp(-s) exp(s) = 1 for the terms the code builds
    for j in range(n):
        up = (Sym(u[j]) + s[j]).exp()
        dn = (Sym(u[j]) - s[j]).exp()
        es = s[j].exp()
        ctx.assume(up.e == mean[j].e * es.e)
        ctx.assume(dn.e * es.e == mean[j].e)
        ctx.assume(es.e >= 1)
    # monotonicity instances of exp for every pair of exp-terms created above (sound: exp is strictly increasing)
    fams = [[(u[j], mean[j].e) for j in range(n)], [(s[j].e, s[j].exp().e) for j in range(n)],
            [(u[j] + s[j].e, (Sym(u[j]) + s[j]).exp().e) for j in range(n)], [(u[j] - s[j].e, (Sym(u[j]) - s[j]).exp().e) for j in range(n)]]
    for fam in fams:
        for i in range(len(fam)):
            for k in range(i + 1, len(fam)):
                (a, ta), (b, tb) = fam[i], fam[k]
                ctx.assume(z3.And(z3.Implies(a <= b, ta <= tb), z3.Implies(a < b, ta < tb), z3.Implies(a >= b, ta >= tb), z3.Implies(a > b, ta > tb)))
    # search ranges tied to the grid scale: the nearest-sample search in trim_curve is then decided without forking
    # lo drops the first sample (nearest sample to 1.6 c is g[1] = 1.5 c or 2 c), hi drops the last one (nearest to g[-2] + 0.4)
    lo = c * 1.6 if rng == "lo" else None
    hi = c * (g[-2] + 0.4) if rng == "hi" else None
    return c, frq, mean, std, s, (lo, hi)


def reference_peak(frq, curve, sr):
    HC = L()["hvsr_curve"].HvsrCurve
    f, a = HC._find_peak_bounded(frq, curve, search_range_in_hz=sr)
    if f is None:
        return None
    j = next(i for i in range(len(frq)) if frq[i] is f)
    return j


def outcome(fn):
    try:
        return ("ret", [int(x) for x in fn()])
    except (ValueError, TypeError, IndexError) as e:
        return (type(e).__name__, str(e)[:80])


def wit(c, frq, mean, std, sr, extra):
    def w(m):
        val = concretiser(m)
        d = {"frequency": [val(x) for x in frq], "mean": [val(x) for x in mean], "std": [val(x) for x in std], "range": [val(sr[0]), val(sr[1])]}
        d.update({k: (val(v) if isinstance(v, Sym) else v) for k, v in extra.items()})
        return d
    return w


SHAPE = [None]      # witness shaping for the instances that assume two maxima (set per path)


def consistent(rep, ctx, label, verdict, holds_if_one, fails_if_zero, W, key, exclude=None, shape_extra=None):
    """verdict 1 => criterion (weak form) holds; verdict 0 => criterion (strong form) does not hold."""
    neg = z3.Not(holds_if_one) if verdict else fails_if_zero
    if exclude is not None:
        neg = z3.And(neg, z3.Not(exclude))
    rep.prove(ctx, f"{label}: verdict {verdict} is the guideline's", neg, witness=W, key=key, real=True, timeout_ms=20000,
              shape=(list(SHAPE[0] or []) + list(shape_extra)) if shape_extra else SHAPE[0])


def run_reliability(rep, tier, grid, rng, prior=False):
    SE = L()["sesame"]

    def run(ctx):
        c, frq, mean, std, s, sr = mk_inputs(ctx, grid, rng, two_peaks=prior)
        lw = Sym.var("lw", ctx, pos=True)
        nw = Sym.var("nw", ctx, lo=1)
        if prior:
            outcome(lambda: SE.reliability(lw, nw, frq, mean, std, verbose=0))
        outs = [outcome(lambda v=v: SE.reliability(lw, nw, frq, mean, std, search_range_in_hz=sr, verbose=v)) for v in (0, 1, 2)]
        j0 = reference_peak(frq, mean, sr)
        return c, frq, mean, std, s, sr, lw, nw, outs, j0

    for ctx, (c, frq, mean, std, s, sr, lw, nw, outs, j0) in rep.explore(run, max_paths=700 if tier == "quick" else 6000, timeout_ms=3000):
        if j0 is None:
            continue      # no peak in the range: outside the quantifier
        W = wit(c, frq, mean, std, sr, {"kind": "reliability", "lw": lw, "nw": nw, "prior": prior})
        rep.obligations += 1
        if outs[0] == outs[1] == outs[2] and outs[0][0] == "ret":
            rep.discharged += 1
        else:
            r, m = ctx.model()
            if r == z3.sat:
                env = real_witness(ctx, model=m) or m
                rep.candidate(W(env), f"reliability verdicts differ between verbosity levels or an exception replaces a verdict: {outs}", key="reliability-verbosity" if outs[0][0] == "ret" else "reliability-raises")
            if outs[0][0] != "ret":
                continue
        v = outs[0][1]
        f0 = frq[j0].e
        n = len(frq)
        consistent(rep, ctx, "reliability i (f0 > 10/lw)", v[0], f0 * lw.e > 10, f0 * lw.e > 10, W, "reliability-i")
        consistent(rep, ctx, "reliability ii (lw nw f0 > 200)", v[1], lw.e * nw.e * f0 > 200, lw.e * nw.e * f0 > 200, W, "reliability-ii")
        inside = [z3.And(frq[j].e > f0 / 2, frq[j].e < 2 * f0) for j in range(n)]
        thr = z3.If(f0 > qval(0.5), z3.RealVal(2), z3.RealVal(3))
        crit = z3.And([z3.Implies(inside[j], s[j].exp().e < thr) for j in range(n)])
        consistent(rep, ctx, "reliability iii (sigma_A(f) < 2 or 3 on (f0/2, 2 f0))", v[2], crit, crit, W, "reliability-iii", exclude=(f0 == qval(0.5)))
        rep.sample({"grid": grid, "range": rng, "peak_index": j0, "verdicts": v})


def run_clarity(rep, tier, grid, rng, prior=False):
    SE = L()["sesame"]

    def run(ctx):
        c, frq, mean, std, s, sr = mk_inputs(ctx, grid, rng, two_peaks=prior)
        fstd = Sym.var("fn_std", ctx, lo=0)
        if prior:
            outcome(lambda: SE.clarity(frq, mean, std, fstd, verbose=0))
        outs = [outcome(lambda v=v: SE.clarity(frq, mean, std, fstd, search_range_in_hz=sr, verbose=v)) for v in (0, 1, 2)]
        j0 = reference_peak(frq, mean, sr)
        up = np.array([(mean[j].log() + s[j]).exp() for j in range(len(frq))], dtype=object)
        dn = np.array([(mean[j].log() - s[j]).exp() for j in range(len(frq))], dtype=object)
        jp = reference_peak(frq, up, sr) if j0 is not None else None
        jm = reference_peak(frq, dn, sr) if j0 is not None else None
        return c, frq, mean, std, s, sr, fstd, outs, j0, jp, jm

    for ctx, (c, frq, mean, std, s, sr, fstd, outs, j0, jp, jm) in rep.explore(run, max_paths=900 if tier == "quick" else 8000, timeout_ms=3000):
        if j0 is None:
            continue
        W = wit(c, frq, mean, std, sr, {"kind": "clarity", "fn_std": fstd, "prior": prior})
        rep.obligations += 1
        if outs[0] == outs[1] == outs[2] and outs[0][0] == "ret":
            rep.discharged += 1
        else:
            r, m = ctx.model()
            if r == z3.sat:
                env = real_witness(ctx, model=m) or m
                key = "clarity-verbosity" if outs[0][0] == "ret" else "clarity-raises"
                rep.candidate(W(env), f"clarity verdicts differ between verbosity levels or an exception replaces a verdict: {outs}", key=key)
            if outs[0][0] != "ret":
                continue
        v = outs[0][1]
        n = len(frq)
        f0 = frq[j0].e
        half_lg = mean[j0].lg          # log A0 ; A(f) < A0/2 is compared on the values themselves
        A0 = mean[j0].e
        lowc = [z3.And(frq[j].e >= f0 / 4, frq[j].e <= f0, mean[j].e < A0 / 2) for j in range(n)]
        lowo = [z3.And(frq[j].e > f0 / 4, frq[j].e < f0, mean[j].e < A0 / 2) for j in range(n)]
        consistent(rep, ctx, "clarity i (exists f- in [f0/4, f0] with A < A0/2)", v[0], z3.Or(lowc), z3.Or(lowo), W, "clarity-i")
        hic = [z3.And(frq[j].e >= f0, frq[j].e <= 4 * f0, mean[j].e < A0 / 2) for j in range(n)]
        hio = [z3.And(frq[j].e > f0, frq[j].e < 4 * f0, mean[j].e < A0 / 2) for j in range(n)]
        consistent(rep, ctx, "clarity ii (exists f+ in [f0, 4 f0] with A < A0/2)", v[1], z3.Or(hic), z3.Or(hio), W, "clarity-ii")
        consistent(rep, ctx, "clarity iii (A0 > 2)", v[2], A0 > 2, A0 > 2, W, "clarity-iii")
        if jp is not None and jm is not None:
            fp, fm = frq[jp].e, frq[jm].e
            c4c = z3.And(fp >= f0 * qval(0.95), fp <= f0 * qval(1.05), fm >= f0 * qval(0.95), fm <= f0 * qval(1.05))
            c4o = z3.And(fp > f0 * qval(0.95), fp < f0 * qval(1.05), fm > f0 * qval(0.95), fm < f0 * qval(1.05))
            consistent(rep, ctx, "clarity iv (peaks of A +- sigma within 5% of f0)", v[3], c4c, c4o, W, "clarity-iv")
        else:
            rep.obligations += 1
            if v[3] == 0:
                rep.discharged += 1
            else:
                rep.candidate(W(ctx.model()[1]), "clarity iv passes although A + sigma or A - sigma has no peak", key="clarity-iv")
        eps = z3.If(f0 < qval(0.2), qval(0.25), z3.If(f0 < qval(0.5), qval(0.2), z3.If(f0 < 1, qval(0.15), z3.If(f0 < 2, qval(0.1), qval(0.05)))))
        theta = z3.If(f0 < qval(0.2), qval(3.0), z3.If(f0 < qval(0.5), qval(2.5), z3.If(f0 < 1, qval(2.0), z3.If(f0 < 2, qval(1.78), qval(1.58)))))
        consistent(rep, ctx, "clarity v (sigma_f < eps(f0) f0, table with half-open bands)", v[4], fstd.e < eps * f0, fstd.e < eps * f0, W, "clarity-v")
        # witness shaping only (never part of the obligation): a model in which the uninterpreted exp is on the true side of every
        # threshold of the table for every log-standard deviation, with a margin - such a witness survives the replay with the real exp
        import math
        sx = []
        for k_ in range(n):
            ek = s[k_].exp().e
            for th in (3.0, 2.5, 2.0, 1.78, 1.58):
                lo_, hi_ = qval(math.log(th) - 1e-6), qval(math.log(th) + 1e-6)
                sx += [z3.Or(s[k_].e < lo_, s[k_].e > hi_), z3.Implies(s[k_].e < lo_, ek < qval(th)), z3.Implies(s[k_].e > hi_, ek > qval(th))]
        consistent(rep, ctx, "clarity vi (sigma_A(f0) < theta(f0))", v[5], s[j0].exp().e < theta, s[j0].exp().e < theta, W, "clarity-vi", shape_extra=sx)
        rep.sample({"grid": grid, "range": rng, "peak_index": j0, "verdicts": v})


def run_monotone(rep, tier, which):
    SE = L()["sesame"]

    def run(ctx):
        c, frq, mean, std, s, sr = mk_inputs(ctx, "a", "none")
        if which == "ii":
            lw, nw = Sym.var("lw", ctx, pos=True), Sym.var("nw", ctx, lo=1)
            lw2, nw2 = Sym.var("lw2", ctx), Sym.var("nw2", ctx)
            ctx.assume(z3.And(lw2.e >= lw.e, nw2.e >= nw.e))
            a = outcome(lambda: SE.reliability(lw, nw, frq, mean, std, verbose=0))
            b = outcome(lambda: SE.reliability(lw2, nw2, frq, mean, std, verbose=0))
            return c, frq, mean, std, sr, a, b, 1, {"lw": lw, "nw": nw, "lw2": lw2, "nw2": nw2}
        f1, f2 = Sym.var("fn_std", ctx, lo=0), Sym.var("fn_std2", ctx, lo=0)
        ctx.assume(f2.e <= f1.e)
        a = outcome(lambda: SE.clarity(frq, mean, std, f1, verbose=0))
        b = outcome(lambda: SE.clarity(frq, mean, std, f2, verbose=0))
        return c, frq, mean, std, sr, a, b, 4, {"fn_std": f1, "fn_std2": f2}

    for ctx, (c, frq, mean, std, sr, a, b, idx, extra) in rep.explore(run, max_paths=700 if tier == "quick" else 5000, timeout_ms=3000):
        if a[0] != "ret" or b[0] != "ret":
            continue
        rep.obligations += 1
        if a[1][idx] <= b[1][idx]:
            rep.discharged += 1
        else:
            r, m = ctx.model()
            if r == z3.sat:
                rep.candidate(wit(c, frq, mean, std, sr, {"kind": "monotone", "which": which, **extra})(real_witness(ctx, model=m) or m),
                              f"criterion {which} turns from pass to fail when the input improves", key=f"not-monotone-{which}")


# ----------------------------------------------------------------------------- concrete side
def _guideline(frq, mean, std, sr, lw=None, nw=None, fstd=None):
    """SESAME (2004) on floats, on the C08-defined peak of the mean curve."""
    import hvsrpy
    f0, A0 = hvsrpy.HvsrCurve._find_peak_bounded(frq, mean, search_range_in_hz=tuple(sr))
    if f0 is None:
        return None
    j0 = int(np.where(frq == f0)[0][0])
    out = {"f0": f0}
    if lw is not None:
        sig = np.exp(std)
        ins = (frq > f0 / 2) & (frq < 2 * f0)
        out["rel"] = [int(f0 > 10 / lw), int(lw * nw * f0 > 200), int(bool((sig[ins] < (2 if f0 > 0.5 else 3)).all()))]
    if fstd is not None:
        up, dn = mean * np.exp(std), mean * np.exp(-std)
        fp = hvsrpy.HvsrCurve._find_peak_bounded(frq, up, search_range_in_hz=tuple(sr))[0]
        fm = hvsrpy.HvsrCurve._find_peak_bounded(frq, dn, search_range_in_hz=tuple(sr))[0]
        band = 0 if f0 < 0.2 else 1 if f0 < 0.5 else 2 if f0 < 1 else 3 if f0 < 2 else 4
        eps, theta = [0.25, 0.2, 0.15, 0.1, 0.05][band], [3.0, 2.5, 2.0, 1.78, 1.58][band]
        lo = (frq > f0 / 4) & (frq < f0)
        hi = (frq > f0) & (frq < 4 * f0)
        c4 = int(fp is not None and fm is not None and 0.95 * f0 < fp < 1.05 * f0 and 0.95 * f0 < fm < 1.05 * f0)
        out["cla"] = [int(bool((mean[lo] < A0 / 2).any())), int(bool((mean[hi] < A0 / 2).any())), int(A0 > 2), c4, int(fstd < eps * f0), int(np.exp(std[j0]) < theta)]
    return out


def replay(spec):
    import io, contextlib
    from hvsrpy import sesame as SE
    frq, mean, std = (np.array(spec[k], dtype=float) for k in ("frequency", "mean", "std"))
    sr = [None if v is None else float(v) for v in spec["range"]]
    res = {}
    kind = spec["kind"]
    if spec.get("prior"):
        for call in (lambda: SE.reliability(30.0, 10.0, frq, mean, std, verbose=0), lambda: SE.clarity(frq, mean, std, 0.1, verbose=0)):
            try:
                with contextlib.redirect_stdout(io.StringIO()):
                    call()          # earlier use of the module under the default search range
            except Exception:   # noqa
                pass
    for v in (0, 1, 2):
        try:
            with contextlib.redirect_stdout(io.StringIO()):
                if kind in ("reliability",) or (kind == "monotone" and spec["which"] == "ii"):
                    res[v] = ("ret", [int(x) for x in SE.reliability(spec["lw"], spec["nw"], frq, mean, std, search_range_in_hz=tuple(sr), verbose=v)])
                else:
                    res[v] = ("ret", [int(x) for x in SE.clarity(frq, mean, std, spec["fn_std"], search_range_in_hz=tuple(sr), verbose=v)])
        except Exception as e:   # noqa
            res[v] = (type(e).__name__, str(e)[:100])
    if kind == "monotone":
        with contextlib.redirect_stdout(io.StringIO()):
            if spec["which"] == "ii":
                b = SE.reliability(spec["lw2"], spec["nw2"], frq, mean, std, verbose=0)[1]
                a = res[0][1][1]
            else:
                b = SE.clarity(frq, mean, std, spec["fn_std2"], verbose=0)[4]
                a = res[0][1][4]
        return {"reproduced": bool(a > b), "key": f"not-monotone-{spec['which']}", "detail": f"{a} -> {b}"}
    g = _guideline(frq, mean, std, sr, spec.get("lw"), spec.get("nw"), spec.get("fn_std"))
    if g is None:
        return {"reproduced": False, "detail": "no peak in range on the concrete witness"}
    want = g["rel"] if kind == "reliability" else g["cla"]
    if res[0][0] != "ret" or res[1][0] != "ret" or res[2][0] != "ret":
        bad = [v for v in (0, 1, 2) if res[v][0] != "ret"]
        key = f"{kind}-raises" if 0 in bad else f"{kind}-verbosity"
        return {"reproduced": True, "key": key + (":verbose2-empty-band" if bad == [2] and "zero-size" in res[2][1] else ""),
                "detail": f"{kind} at verbosity {bad} raises {res[bad[0]]} (f0={g['f0']}, guideline verdicts {want}); frequency={frq.tolist()} mean={mean.tolist()}"[:500]}
    if not (res[0] == res[1] == res[2]):
        return {"reproduced": True, "key": f"{kind}-verbosity", "detail": f"{res}"}
    got = res[0][1]
    diff = [i for i, (a, b) in enumerate(zip(got, want)) if a != b]
    if diff:
        names = ["i", "ii", "iii", "iv", "v", "vi"]
        return {"reproduced": True, "key": f"{kind}-{names[diff[0]]}", "detail": f"{kind}: library {got} vs guideline {want} (f0={g['f0']}); frequency={frq.tolist()} mean={mean.tolist()} std={std.tolist()}"[:500]}
    return {"reproduced": False, "detail": f"verdicts {got} agree with the guideline"}


def validate(spec):
    return {"ok": True, "skipped": True}
