"""C02 - smoothing operators are the published normalised kernels.

The interpreted source of the seven operators (numba.njit = identity) runs on a symbolic FFT-style grid
f_j = j*df (symbolic df > 0, 0 Hz bin included), symbolic centre frequency and bandwidth and symbolic
non-negative spectrum rows.  Per feasible path (= which bins fall in the window, which guards fire) the
output cell must equal  sum_j w(f_j) x_j / sum_j w(f_j)  with the published weight w written here, and 0
for an empty window.  Consequences (constant reproduced, min/max bounds, linearity, row independence,
Savitzky-Golay cubic reproduction) are issued as separate queries.  Compiled = interpreted is compared on
the path witnesses only (no LLVM encoder here): reported as compiled_vs_interpreted_witnesses.
"""
import math

import numpy as np
import z3

from symx import loader
from symx.core import Sym, Ctx, symarray, qval, is_nan, UF_LOG10, UF_POW10, UF_SINC
from symx.report import fl, concretiser, real_witness

OPS = ["konno_and_ohmachi", "parzen", "linear_rectangular", "log_rectangular", "linear_triangular", "log_triangular"]
FUNCTIONS_Q = ["smoothing." + o for o in OPS] + ["smoothing.savitzky_and_golay", "smoothing._savitzky_and_golay"]
STUBS = ["numba.njit -> identity (the interpreted source is what is executed symbolically)",
         "sin, log10, 10**x uninterpreted (identical terms => identical for the real functions)"]
ASSUMPTIONS = ["floats read as reals: the 1e-6 guards and window edges are compared exactly",
               "grid f_j = j*df with df >= 1/100 (so that the first non-zero bin is above the 1e-6 guard)"]
OUTSIDE = ["rounding at the 1e-6 guards and window edges", "compiled == interpreted beyond the solver-chosen witnesses",
           "Savitzky-Golay on a symbolic grid (grid and centre frequencies are concrete there; spectrum symbolic)"]
BOUNDS = {"quick": {"bins": 5, "rows": 2, "symbolic_centre_frequencies": 1, "sg_points": [5, 7]},
          "thorough": {"bins": "5-8", "rows": 3, "symbolic_centre_frequencies": 2, "sg_points": [5, 7, 9, 11]}}
INSTANCE_TIMEOUT = {"quick": 230, "thorough": 700}
MAX_VALIDATIONS = {"quick": 80, "thorough": 400}
_L = None
EPS = qval(1e-6)


def L():
    global _L
    if _L is None:
        _L = loader.load(["smoothing"], symbolic_pi=True)
    return _L


def functions_encoded():
    return L().functions_encoded(FUNCTIONS_Q)


def instances(tier):
    out = []
    nbs = [5] if tier == "quick" else [5, 6, 8]
    for op in OPS:
        for nb in nbs:
            out.append({"name": f"kernel_{op}_nb{nb}", "func": "run_kernel", "kwargs": {"op": op, "nb": nb, "rows": 2 if tier == "quick" else 3}})
        out.append({"name": f"conseq_{op}", "func": "run_consequences", "kwargs": {"op": op, "nb": 4 if tier == "quick" else 5}})
        # two symbolic centre frequencies: their order is not fixed (ascending, descending, equal are all explored)
        out.append({"name": f"kernel2fc_{op}", "func": "run_kernel", "kwargs": {"op": op, "nb": 3 if tier == "quick" else 4, "rows": 1 if tier == "quick" else 2, "nfc": 2}})
    for m in ([5, 7] if tier == "quick" else [5, 7, 9, 11]):
        out.append({"name": f"savgol_m{m}", "func": "run_savgol", "kwargs": {"m": m}})
    return out


# ----------------------------------------------------------------------------- published kernels (specification)
def zabs(e):
    return z3.If(e >= 0, e, -e)


def sinc4(arg):
    s = UF_SINC(z3.simplify(arg)) / arg
    return (s * s) * (s * s)


def kernel_spec(op, f, fc, b):
    """(inside, weight) as z3 terms for one spectral sample f, centre fc, bandwidth b - the published kernels."""
    not_dc = f >= EPS
    on = zabs(f - fc) < EPS
    if op == "konno_and_ohmachi":
        r = f / fc
        inside = z3.And(not_dc, r <= UF_POW10(z3.simplify(3 / b)), r >= UF_POW10(z3.simplify(-3 / b)))
        arg = b * UF_LOG10(z3.simplify(r))
        return inside, z3.If(on, z3.RealVal(1), sinc4(arg))
    if op == "parzen":
        a = (z3.Real("pi") * 280) / (2 * 151)
        lim = qval(float(np.sqrt(6))) * a / b
        d = f - fc
        inside = z3.And(not_dc, d <= lim, d >= -lim)
        return inside, z3.If(on, z3.RealVal(1), sinc4(a * d / b))
    if op == "linear_rectangular":
        return z3.And(not_dc, zabs(f - fc) <= b / 2), z3.RealVal(1)
    if op == "linear_triangular":
        return z3.And(not_dc, zabs(f - fc) <= b / 2), 1 - zabs(f - fc) * (2 / b)
    r = f / fc
    lo, hi = UF_POW10(z3.simplify(-b / 2)), UF_POW10(z3.simplify(b / 2))
    inside = z3.And(not_dc, r >= lo, r <= hi)
    if op == "log_rectangular":
        return inside, z3.RealVal(1)
    if op == "log_triangular":
        return inside, 1 - zabs(UF_LOG10(z3.simplify(r))) * (2 / b)
    raise ValueError(op)


def smooth_spec(op, frq, row, fc, b):
    """z3 term of the published normalised average for one row / one centre frequency."""
    ws = []
    for f in frq:
        inside, w = kernel_spec(op, Sym.lift(f), fc, b)
        ws.append(z3.If(inside, w, z3.RealVal(0)))
    sw = z3.Sum(ws)
    sp = z3.Sum([w * Sym.lift(x) for w, x in zip(ws, row)])
    return z3.If(z3.Or(fc < EPS, sw <= 0), z3.RealVal(0), sp / sw), ws, sw


def mk_inputs(ctx, nb, rows, nfc):
    df = Sym.var("df", ctx)
    ctx.assume(df.e >= qval(0.01))
    bw = Sym.var("bw", ctx, pos=True)
    frq = np.array([0.0] + [df * j for j in range(1, nb)], dtype=object)
    spec = symarray("x", (rows, nb), ctx, nonneg=True)
    fcs = np.array([Sym.var(f"fc{i}", ctx) for i in range(nfc)], dtype=object)
    return df, bw, frq, spec, fcs


def kwit(op, df, bw, frq, spec, fcs, what):
    def w(m):
        val = concretiser(m)
        return {"kind": "kernel", "op": op, "what": what, "df": val(df), "bw": val(bw), "nb": len(frq),
                "fcs": [val(x) for x in fcs], "spectrum": [[val(x) for x in row] for row in spec]}
    return w


SAMPLERS = [("df", lambda r: r.choice([0.05, 0.1, 0.25, 0.5, 1.0])), ("bw", lambda r: r.choice([0.1, 0.2, 0.5, 1.0, 2.0, 20.0, 40.0])),
            ("fc", lambda r: r.choice([0.0, 0.1, 0.25, 0.5, 1.0, 1.5, 2.0, 0.3, 0.7, 5.0])), ("x", lambda r: r.choice([0.0, 1.0, 2.0, 0.5]))]


def dyadic(df, bw, fcs, spec):
    """inputs on a dyadic grid (multiples of 1/8, spectrum multiples of 1/4): exactly representable floats"""
    cons = []
    for k, v in enumerate([df, bw] + list(fcs)):
        i = z3.Int(f"dy!{k}")
        cons += [v.e == z3.ToReal(i) / 8, i >= 0, i <= 128]
    for k, v in enumerate(spec.flat):
        i = z3.Int(f"dx!{k}")
        cons += [v.e == z3.ToReal(i) / 4, i >= 0, i <= 64]
    return cons


def run_kernel(rep, tier, op, nb, rows, nfc=1):
    fn = getattr(L()["smoothing"], op)

    def run(ctx):
        df, bw, frq, spec, fcs = mk_inputs(ctx, nb, rows, nfc)
        out = fn(frq, spec, fcs, bw)
        return df, bw, frq, spec, fcs, out

    for ctx, (df, bw, frq, spec, fcs, out) in rep.explore(run, max_paths=800 if tier == "quick" else 10000):
        rep.reachable(ctx)
        W = lambda what: kwit(op, df, bw, frq, spec, fcs, what)
        bad = []
        for i in range(nfc):
            for r in range(rows):
                want, ws, sw = smooth_spec(op, frq, spec[r], fcs[i].e, bw.e)
                bad.append(Sym.lift(out[r, i]) != want)
        rep.prove(ctx, f"{op}: output = weight-normalised average under the published kernel (0 for an empty window)", bad,
                  witness=W("identity"), key="kernel-identity", real=True, samplers=SAMPLERS, shape=dyadic(df, bw, fcs, spec))
        if len(rep.validations) < 10:
            r_, m = ctx.model()
            if r_ == z3.sat:
                env = real_witness(ctx, model=m, tries=400, samplers=SAMPLERS)
                if env is not None:
                    s = W("validate")(env)
                    val = concretiser(env)
                    s["expect"] = [[val(out[r, i]) for i in range(nfc)] for r in range(rows)]
                    s["instance"] = rep.name
                    rep.validation(s)
                    rep.sample({"op": op, "df": s["df"], "bw": s["bw"], "fcs": s["fcs"], "out": s["expect"]})


def log_axioms(op, frq, fc, b):
    """Sound instances of facts about the real log10 / 10**x used by the log-frequency kernels:
    r <= 10**t  =>  log10(r) <= t   and   r >= 10**t  =>  log10(r) >= t   (monotone inverse pair)."""
    ax = []
    if op in ("log_triangular", "log_rectangular"):
        for f in frq:
            r = Sym.lift(f) / fc
            lg = UF_LOG10(z3.simplify(r))
            ax.append(z3.Implies(r <= UF_POW10(z3.simplify(b / 2)), lg <= b / 2))
            ax.append(z3.Implies(r >= UF_POW10(z3.simplify(-b / 2)), lg >= -b / 2))
    return ax


def run_consequences(rep, tier, op, nb):
    fn = getattr(L()["smoothing"], op)
    from symx.core import free_vars
    from symx.report import nlsat_unsat

    def run(ctx):
        df, bw, frq, spec, fcs = mk_inputs(ctx, nb, 2, 1)
        out = fn(frq, spec, fcs, bw)
        c = Sym.var("c", ctx, lo=0)
        const = np.empty((1, nb), dtype=object)
        const[...] = c
        outc = fn(frq, const, fcs, bw)
        other = symarray("y", (1, nb), ctx, nonneg=True)
        outr = fn(frq, np.vstack([spec[:1], other]), fcs, bw)
        return df, bw, frq, spec, fcs, out, c, outc, outr

    first = True
    for ctx, (df, bw, frq, spec, fcs, out, c, outc, outr) in rep.explore(run, max_paths=400 if tier == "quick" else 4000):
        rep.reachable(ctx)
        W = lambda what: kwit(op, df, bw, frq, spec, fcs, what)
        want, ws, sw = smooth_spec(op, frq, spec[0], fcs[0].e, bw.e)
        nonempty = z3.And(fcs[0].e >= EPS, sw > 0)
        rep.prove(ctx, f"{op}: constant spectrum reproduced exactly", z3.And(nonempty, Sym.lift(outc[0, 0]) != c.e), witness=W("constant"), key="constant")
        rep.prove(ctx, f"{op}: kernel weights are non-negative inside the window",
                  z3.And(z3.And(log_axioms(op, frq, fcs[0].e, bw.e)), z3.Or([w < 0 for w in ws])), witness=None, key="negative-weight", timeout_ms=30000)
        rep.prove(ctx, f"{op}: a row is smoothed independently of the other rows", Sym.lift(outr[0, 0]) != Sym.lift(out[0, 0]), witness=W("rows"), key="row-independence")
        # weights do not depend on the spectrum (syntactic, on the terms of this path)
        rep.obligations += 1
        xs = set()
        for v in spec.flat:
            xs |= free_vars(v.e)
        wv = set()
        for w in ws:
            free_vars(w, wv)
        if xs & wv:
            rep.inconclusive.append(f"{op}: kernel weights mention spectrum symbols {sorted(xs & wv)[:3]}")
        else:
            rep.discharged += 1
        if first:
            first = False
            # operator-independent lemmas (pure polynomial arithmetic, nlsat): with arbitrary weights w_j >= 0, sum > 0
            w = [z3.Real(f"w{j}") for j in range(nb)]
            x = [z3.Real(f"lx{j}") for j in range(nb)]
            y = [z3.Real(f"ly{j}") for j in range(nb)]
            lo, hi, al, be = z3.Reals("lo hi alpha beta")
            sw_ = z3.Sum(w)
            avg = lambda v: z3.Sum([a * b_ for a, b_ in zip(w, v)]) / sw_
            hyp = [a >= 0 for a in w] + [sw_ > 0]
            for label, neg in (
                ("convexity lemma: a weight-normalised average with non-negative weights lies between the smallest and largest contributing sample",
                 hyp + [z3.Implies(a > 0, z3.And(lo <= b_, b_ <= hi)) for a, b_ in zip(w, x)] + [z3.Or(avg(x) < lo, avg(x) > hi)]),
                ("linearity lemma: the weight-normalised average is linear in the spectrum",
                 hyp + [avg([al * a + be * b_ for a, b_ in zip(x, y)]) != al * avg(x) + be * avg(y)])):
                rep.obligations += 1
                import time as _t
                t0 = _t.time()
                r = nlsat_unsat(neg, 60000)
                rep.solver_ms += (_t.time() - t0) * 1000
                if r == "unsat":
                    rep.discharged += 1
                else:
                    rep.inconclusive.append(f"{label} ({nb} bins): {r}")


def run_savgol(rep, tier, m):
    SM = L()["smoothing"]
    nb = 2 * m + 3
    df = 0.25
    frq = np.arange(nb) * df
    half = (m - 1) // 2
    # on-grid, off-grid (rounds to nearest bin), too close to either end, below the grid start
    idxs = [half + 1, half + 2, nb - half - 1, nb - half - 2, 1, half, nb - 1]
    fcs = np.array([i * df for i in idxs] + [(half + 2) * df + 0.1, (half + 3) * df - 0.1])
    nearest = idxs + [half + 2, half + 3]

    def run(ctx):
        spec = symarray("x", (2, nb), ctx)
        out = SM.savitzky_and_golay(frq, spec, fcs, bandwidth=m)
        a = [Sym.var(f"a{k}", ctx) for k in range(4)]
        cubic = np.array([[a[0] + a[1] * j + a[2] * (j * j) + a[3] * (j * j * j) for j in range(nb)]], dtype=object)
        outc = SM.savitzky_and_golay(frq, cubic, fcs, bandwidth=m)
        return spec, out, a, cubic, outc

    for ctx, (spec, out, a, cubic, outc) in rep.explore(run, max_paths=50):
        rep.reachable(ctx)

        def w(what):
            def f(mm):
                val = concretiser(mm)
                return {"kind": "savgol", "m": m, "nb": nb, "df": df, "fcs": fcs.tolist(), "what": what,
                        "spectrum": [[val(x) for x in row] for row in spec], "cubic": [val(x) for x in a]}
            return f
        bad = []
        ncoef = half + 1
        norm = qval(m * (m * m - 4)) / 3
        for c, k in enumerate(nearest):
            for r in range(2):
                if k < ncoef or k + ncoef > nb:
                    want = z3.RealVal(0)
                else:
                    want = z3.Sum([qval(3 * m * m - 7 - 20 * i * i) / 4 * Sym.lift(spec[r, k + i]) for i in range(-half, half + 1)]) / norm
                bad.append(Sym.lift(out[r, c]) != want)
        rep.prove(ctx, f"savitzky_and_golay(m={m}): quadratic/cubic least-squares coefficients at the nearest grid index, 0 near the ends", bad,
                  witness=w("identity"), key="savgol-identity")
        badc = []
        for c, k in enumerate(nearest):
            if not (k < ncoef or k + ncoef > nb):
                badc.append(Sym.lift(outc[0, c]) != Sym.lift(cubic[0, k]))
        rep.prove(ctx, f"savitzky_and_golay(m={m}): every cubic polynomial is reproduced at interior indices", badc, witness=w("cubic"), key="savgol-cubic")
        r_, mm = ctx.model()
        if r_ == z3.sat:
            s = w("validate")(mm)
            val = concretiser(mm)
            s["expect"] = [[val(out[r, c]) for c in range(len(fcs))] for r in range(2)]
            s["instance"] = rep.name
            rep.validation(s)


# ----------------------------------------------------------------------------- concrete side
def _ref_kernel(op, f, fc, b):
    if f < 1e-6:
        return None
    if op == "konno_and_ohmachi":
        r = f / fc
        if r > 10 ** (3 / b) or r < 10 ** (-3 / b):
            return None
        if abs(f - fc) < 1e-6:
            return 1.0
        a = b * math.log10(r)
        return (math.sin(a) / a) ** 4
    if op == "parzen":
        a = (math.pi * 280) / (2 * 151)
        lim = math.sqrt(6) * a / b
        if abs(f - fc) > lim:
            return None
        if abs(f - fc) < 1e-6:
            return 1.0
        u = a * (f - fc) / b
        return (math.sin(u) / u) ** 4
    if op in ("linear_rectangular", "linear_triangular"):
        if abs(f - fc) > b / 2:
            return None
        return 1.0 if op == "linear_rectangular" else 1 - abs(f - fc) * 2 / b
    r = f / fc
    if r < 10 ** (-b / 2) or r > 10 ** (b / 2):
        return None
    return 1.0 if op == "log_rectangular" else 1 - abs(math.log10(r)) * 2 / b


def _ref_smooth(op, frq, spec, fcs, b):
    out = np.zeros((spec.shape[0], len(fcs)))
    for i, fc in enumerate(fcs):
        if fc < 1e-6:
            continue
        ws = [_ref_kernel(op, f, fc, b) for f in frq]
        sw = sum(w for w in ws if w is not None)
        if sw > 0:
            out[:, i] = sum(w * spec[:, j] for j, w in enumerate(ws) if w is not None) / sw
    return out


def _inputs(spec):
    frq = np.arange(spec["nb"]) * spec["df"]
    x = np.array(spec["spectrum"], dtype=float)
    return frq, x, np.array(spec.get("fcs"), dtype=float)


def replay(spec):
    from hvsrpy import smoothing as SM
    if spec["kind"] == "savgol":
        frq, x, fcs = _inputs(spec)
        m = spec["m"]
        got = SM.savitzky_and_golay(frq, x, fcs, bandwidth=m)
        half = (m - 1) // 2
        want = np.zeros_like(got)
        for c, fc in enumerate(fcs):
            k = int(round(fc / spec["df"]))
            if k < half + 1 or k + half + 1 > len(frq):
                continue
            want[:, c] = sum((3 * m * m - 7 - 20 * i * i) / 4 * x[:, k + i] for i in range(-half, half + 1)) / (m * (m * m - 4) / 3)
        if not np.allclose(got, want, rtol=1e-9, atol=1e-12):
            return {"reproduced": True, "key": "savgol-identity", "detail": f"m={m}: library {got.tolist()} vs SG least squares {want.tolist()}"[:400]}
        a = spec.get("cubic")
        if a:
            j = np.arange(len(frq))
            cub = np.array([a[0] + a[1] * j + a[2] * j ** 2 + a[3] * j ** 3])
            gc = SM.savitzky_and_golay(frq, cub, fcs, bandwidth=m)
            for c, fc in enumerate(fcs):
                k = int(round(fc / spec["df"]))
                if not (k < half + 1 or k + half + 1 > len(frq)) and not np.isclose(gc[0, c], cub[0, k], rtol=1e-9, atol=1e-9):
                    return {"reproduced": True, "key": "savgol-cubic", "detail": f"cubic {a} at index {k}: {gc[0, c]} vs {cub[0, k]}"}
        return {"reproduced": False, "detail": "SG agrees"}
    frq, x, fcs = _inputs(spec)
    op, b = spec["op"], spec["bw"]
    fn = getattr(SM, op)
    got = fn(frq, x, fcs, b)
    want = _ref_smooth(op, frq, x, fcs, b)
    if not np.allclose(got, want, rtol=1e-9, atol=1e-12):
        return {"reproduced": True, "key": "kernel-identity", "detail": f"{op} df={spec['df']} bw={b} fcs={fcs.tolist()} x={x.tolist()}: library {got.tolist()} vs published kernel {want.tolist()}"[:500]}
    return {"reproduced": False, "detail": "library agrees with the published kernel on this input"}


def validate(spec):
    from hvsrpy import smoothing as SM
    frq, x, fcs = _inputs(spec)
    if spec["kind"] == "savgol":
        got = SM.savitzky_and_golay(frq, x, fcs, bandwidth=spec["m"])
        interp = SM._savitzky_and_golay.py_func
    else:
        fn = getattr(SM, spec["op"])
        got = fn(frq, x, fcs, spec["bw"])
        py = fn.py_func(frq, x, fcs, spec["bw"])
        if not np.allclose(got, py, rtol=1e-12, atol=1e-15):
            return {"ok": False, "detail": f"compiled != interpreted: {got.tolist()} vs {py.tolist()}"}
    want = np.array(spec["expect"], dtype=float)
    if not np.allclose(got, want, rtol=1e-9, atol=1e-12):
        return {"ok": False, "detail": f"{spec.get('op', 'savgol')}: engine {want.tolist()} library {got.tolist()} (df={spec['df']}, bw={spec.get('bw')}, fcs={spec['fcs']})"}
    return {"ok": True, "compiled_vs_interpreted": True}
