"""C14, first sentence - the Voronoi weights are nearest-sensor area fractions of the boundary's convex region.

What runs symbolically is hvsrpy's own geometry code: HvsrSpatial._cull_points, _bounded_voronoi (with ITS choice of the
"points at infinity" radius) and _voronoi_finite_polygons_2d, on sensor coordinates and a boundary that are symbolic reals.
The two compiled libraries underneath are replaced by their contracts:

  * scipy.spatial.Voronoi(points)  ->  for a fixed combinatorial class (the Delaunay triangulation of a reference layout),
    the object Qhull returns for ANY coordinates in that class: ridge / region tables of the class, and for every Voronoi
    vertex fresh reals constrained to be equidistant from its three sensors.  The coordinates are constrained to the class:
    every Delaunay triangle keeps its orientation, every other sensor is strictly outside its circumcircle, every hull edge
    keeps all other sensors strictly on its inner side (these three families characterise the triangulation).
  * shapely Point / Polygon / contains / intersection / area  ->  the boundary region is a symbolic axis-parallel rectangle;
    contains() is the strict inequality test; intersection() and area are NOT executed: instead the set-level statement that
    makes the areas right is proved of the polygon hvsrpy hands to intersection():

      O1  every vertex of region i is in the closed Voronoi cell of sensor i  (no other sensor is closer),
      O2  the vertices are in convex counter-clockwise order (bounded cells: consistently oriented),
      O3  the region has all the finite Voronoi vertices of the cell and one far point on each of its two unbounded edges
          (the far point is equidistant from sensor i and the neighbour across that edge),
      O4  the closing chord between the two far points leaves the whole boundary region on its inner side,
      O5  every region IS handed to intersection() with the boundary region (or lies inside it for every layout of the class).

    O1+O2 give polygon_i inside cell_i; O2+O3+O4 give cell_i intersected with the boundary region inside polygon_i; hence
    polygon_i and cell_i cut the same piece out of the boundary region, the pieces tile it, and area_i / total area is the
    fraction of the region nearest to sensor i: non-negative, summing to one, and - being a statement about distances only -
    independent of sensor order, translation and uniform scaling.  Culling: the returned indices are exactly the sensors
    strictly inside the boundary region, in input order.

Every solver counterexample is concretised and replayed on the real library (real Qhull, real GEOS) against an
independent oracle: the nearest-sensor cells obtained by clipping the boundary polygon with the perpendicular bisector
half planes (Sutherland-Hodgman), whose area fractions the library's weights must equal.
"""
import itertools
import numpy as np
import z3

from symx.core import Sym, Settings, qval
from symx.report import concretiser, shaped_model

FUNCTIONS_Q = ["hvsr_spatial.HvsrSpatial._cull_points", "hvsr_spatial.HvsrSpatial._bounded_voronoi", "hvsr_spatial.HvsrSpatial._voronoi_finite_polygons_2d"]
STUBS = ["scipy.spatial.Voronoi -> Qhull's contract for a fixed Delaunay class: tables of the class, vertices = fresh reals equidistant from their three sensors",
         "shapely Point/Polygon/contains -> strict inequalities on a symbolic rectangle; Polygon.intersection / .area not executed (set-level obligations O1-O4 instead)",
         "numpy.arctan2 -> exact angular order (half plane, then cross product sign); numpy.linalg.norm -> exact square root (fresh real s >= 0, s*s = x*x + y*y)"]
ASSUMPTIONS = ["sensor coordinates in general position inside one Delaunay class per instance (strict orientation / empty-circle / hull-side inequalities)",
               "the boundary region is an axis-parallel rectangle or a diamond |x-cx|+|y-cy| < a strictly containing the retained sensors; dropped sensors outside",
               "the order of Qhull's ridge / region tables is the one Qhull produced for the class's reference layout",
               "GEOS computes intersection and area of valid polygons correctly; floats as reals"]
OUTSIDE = ["boundaries other than axis-parallel rectangles and diamonds (4 corners)", "more than 5 retained sensors; degenerate (cocircular / collinear) layouts",
           "floating-point round-off in Qhull / GEOS at coordinate magnitudes of 1e4 array extents", "spatial_weights' dispatch, plot_voronoi"]

BOUNDS = {"quick": {"layouts": "quad (4 sensors in convex position), right (right-triangular hull with legs along the axes + 1 interior sensor)", "families": "one sensor free along x inside its Delaunay class (each sensor in turn); the whole layout under arbitrary translation and positive scaling; one extra sensor outside the boundary at list positions 0 / last",
                    "O4": "rectangle within 1e3 layout units (x the scaling), free sensor within 1e2; 15 s per query", "paths": 24},
          "thorough": {"layouts": "quad, right, centre (3 + 1 interior), five (convex pentagon)", "families": "one sensor free in x, in y (not for five) and in (x, y) (quad / right, sensors 0 and 2); similarity with three rotations; extra outside sensor at every list position",
                       "O4": "as quick, 120 s per query", "paths": 100}}

# reference layouts: one Delaunay class each
LAYOUTS = {
    # hull edges of rational length (3-4-5 triangles) keep the constant norms rational
    "quad": [(0.0, 0.0), (4.0, -3.0), (8.0, 0.0), (4.0, 3.0)],
    "centre": [(0.0, 0.0), (6.0, 0.0), (3.0, 4.0), (3.0, 1.5)],
    # hull = right triangle with its legs along the axes (an L-shaped deployment): the centre of the bounding box is ON the hull
    "right": [(0.0, 0.0), (8.0, 0.0), (0.0, 6.0), (2.0, 1.5)],
    "five": [(0.0, 0.0), (5.0, -1.0), (7.0, 3.0), (3.0, 6.0), (-1.0, 3.0)],
}


def instances(tier):
    out = []
    T = 230 if tier == "quick" else 420
    layouts = ["quad", "right"] if tier == "quick" else ["quad", "right", "centre", "five"]
    for lay in layouts:
        n = len(LAYOUTS[lay])
        out.append({"name": f"voronoi_{lay}_similarity", "func": "run_voronoi", "kwargs": {"layout": lay, "free_site": 0, "similarity": True}, "timeout": T})
        out.append({"name": f"voronoi_{lay}_similarity_dropped_first", "func": "run_voronoi", "kwargs": {"layout": lay, "free_site": 0, "similarity": True, "drop_at": 0}, "timeout": T})
        if tier != "quick":
            for rot in ("r345", "r-5-12-13"):
                out.append({"name": f"voronoi_{lay}_similarity_{rot}", "func": "run_voronoi", "kwargs": {"layout": lay, "free_site": 0, "similarity": True, "rotation": rot}, "timeout": T})
            for d in range(1, n + 1):
                out.append({"name": f"voronoi_{lay}_similarity_dropped_{d}", "func": "run_voronoi", "kwargs": {"layout": lay, "free_site": 0, "similarity": True, "drop_at": d}, "timeout": T})
        for i in range(n):
            out.append({"name": f"voronoi_{lay}_sensor{i}_free_x", "func": "run_voronoi", "kwargs": {"layout": lay, "free_site": i, "free_dims": 1}, "timeout": T})
            if tier != "quick" and lay != "five":
                out.append({"name": f"voronoi_{lay}_sensor{i}_free_y", "func": "run_voronoi", "kwargs": {"layout": lay, "free_site": i, "free_dims": 1, "free_axis": "y"}, "timeout": T})
            if tier != "quick" and lay in ("quad", "right") and i in (0, 2):
                # two free coordinates: most queries exceed nlsat's reach in the budget (reported inconclusive); kept small on purpose
                out.append({"name": f"voronoi_{lay}_sensor{i}_free_xy", "func": "run_voronoi", "kwargs": {"layout": lay, "free_site": i, "free_dims": 2}, "timeout": T})
        out.append({"name": f"voronoi_{lay}_sensor0_free_x_dropped_last", "func": "run_voronoi", "kwargs": {"layout": lay, "free_site": 0, "free_dims": 1, "drop_at": n}, "timeout": T})
    # a boundary region that is not its own bounding box (diamond), layouts with a bounded cell
    for lay in (["right"] if tier == "quick" else ["right", "centre"]):
        out.append({"name": f"voronoi_{lay}_diamond_similarity", "func": "run_voronoi", "kwargs": {"layout": lay, "free_site": 0, "similarity": True, "mask_shape": "diamond"}, "timeout": T})
        out.append({"name": f"voronoi_{lay}_diamond_sensor3_free_x", "func": "run_voronoi", "kwargs": {"layout": lay, "free_site": 3, "free_dims": 1, "mask_shape": "diamond"}, "timeout": T})
    return out


def topology(ref):
    """Combinatorial tables Qhull returns for the reference layout (real scipy), plus the three sensors of every vertex."""
    from scipy.spatial import Voronoi
    vor = Voronoi(np.array(ref, dtype=float))
    sites = {}
    for (p1, p2), vs in zip(vor.ridge_points.tolist(), vor.ridge_vertices):
        for v in vs:
            if v >= 0:
                sites.setdefault(v, set()).update((p1, p2))
    assert all(len(s) == 3 for s in sites.values()), "reference layout is not in general position"
    return {"ridge_points": vor.ridge_points.tolist(), "ridge_vertices": [list(map(int, r)) for r in vor.ridge_vertices],
            "point_region": vor.point_region.tolist(), "regions": [list(map(int, r)) for r in vor.regions],
            "sites": {v: sorted(s) for v, s in sites.items()}, "nv": len(vor.vertices), "ref_vertices": vor.vertices.tolist()}


def _orient(a, b, c):
    return (b[0] - a[0]) * (c[1] - a[1]) - (b[1] - a[1]) * (c[0] - a[0])


def _d2(a, b):
    return (a[0] - b[0]) * (a[0] - b[0]) + (a[1] - b[1]) * (a[1] - b[1])


EXPLICIT_VERTICES = True


class FakeVor:
    pass


class FakePoint:
    def __init__(self, *a):
        self.xy = a if len(a) == 2 else tuple(a[0])

    @property
    def coords(self):
        return [tuple(self.xy)]

    @property
    def x(self):
        return self.xy[0]

    @property
    def y(self):
        return self.xy[1]


class Box:
    """The boundary region: a symbolic axis-parallel rectangle."""

    def __init__(self, xl, xh, yl, yh):
        self.xl, self.xh, self.yl, self.yh = xl, xh, yl, yh

    def contains(self, p):
        x, y = p.xy
        return bool((self.xl < x) & (x < self.xh) & (self.yl < y) & (y < self.yh))

    @property
    def corners(self):
        return [(self.xl, self.yl), (self.xh, self.yl), (self.xh, self.yh), (self.xl, self.yh)]

    @property
    def bounds(self):
        return (self.xl, self.yl, self.xh, self.yh)

    @property
    def area(self):
        return (self.xh - self.xl) * (self.yh - self.yl)

    @property
    def centroid(self):
        return FakePoint((self.xl + self.xh) / 2, (self.yl + self.yh) / 2)


class Diamond:
    """The boundary region as a symbolic diamond |x - cx| + |y - cy| < a: its bounding box is NOT the region."""

    def __init__(self, cx, cy, a):
        self.cx, self.cy, self.a = cx, cy, a

    def _edges(self, x, y):
        dx, dy = x - self.cx, y - self.cy
        return [dx + dy < self.a, dx - dy < self.a, -dx + dy < self.a, -dx - dy < self.a]

    def contains(self, p):
        x, y = p.xy
        e = self._edges(x, y)
        return bool(e[0] & e[1] & e[2] & e[3])

    @property
    def centroid(self):
        return FakePoint(self.cx, self.cy)

    @property
    def corners(self):
        return [(self.cx + self.a, self.cy), (self.cx, self.cy + self.a), (self.cx - self.a, self.cy), (self.cx, self.cy - self.a)]

    @property
    def bounds(self):
        return (self.cx - self.a, self.cy - self.a, self.cx + self.a, self.cy + self.a)


class FakePolygon:
    made = []

    def __init__(self, pts):
        self.pts = np.asarray(pts, dtype=object)
        FakePolygon.made.append(self)

    def intersection(self, mask):
        self.clipped_with = mask
        return self

    @property
    def boundary(self):
        return self

    @property
    def xy(self):
        return list(self.pts[:, 0]), list(self.pts[:, 1])


def make_voronoi_stub(ctx, topo, ref, record):
    """scipy.spatial.Voronoi for one Delaunay class: see module docstring."""
    def Voronoi(points):
        P = np.asarray(points, dtype=object)
        if P.shape != (len(ref), 2):
            raise AssertionError(f"Voronoi called with {P.shape} points, class has {len(ref)}")
        vor = FakeVor()
        vor.points = P
        V = np.empty((topo["nv"], 2), dtype=object)
        for v in range(topo["nv"]):
            a, b, c = topo["sites"][v]
            if _orient(ref[a], ref[b], ref[c]) < 0:
                b, c = c, b
            ctx.assume((_orient(P[a], P[b], P[c]) > 0).e)
            if EXPLICIT_VERTICES:
                # circumcentre in closed form (the orientation determinant is non-zero by the class constraint)
                ax, ay, bx, by, cx, cy = P[a][0], P[a][1], P[b][0], P[b][1], P[c][0], P[c][1]
                d = ((bx - ax) * (cy - ay) - (by - ay) * (cx - ax)) * 2
                b2, c2 = (bx - ax) * (bx - ax) + (by - ay) * (by - ay), (cx - ax) * (cx - ax) + (cy - ay) * (cy - ay)
                V[v, 0] = ax + ((cy - ay) * b2 - (by - ay) * c2) / d
                V[v, 1] = ay + ((bx - ax) * c2 - (cx - ax) * b2) / d
            else:
                V[v, 0], V[v, 1] = Sym.var(f"vx{v}", ctx), Sym.var(f"vy{v}", ctx)
                ctx.assume((_d2(V[v], P[a]) == _d2(V[v], P[b])).e)
                ctx.assume((_d2(V[v], P[a]) == _d2(V[v], P[c])).e)
            for k in range(len(ref)):
                if k not in (a, b, c):
                    ctx.assume((_d2(V[v], P[k]) > _d2(V[v], P[a])).e)
        for (p1, p2), vs in zip(topo["ridge_points"], topo["ridge_vertices"]):
            if min(vs) < 0:
                for k in range(len(ref)):
                    if k not in (p1, p2):
                        s = _orient(ref[p1], ref[p2], ref[k])
                        o = _orient(P[p1], P[p2], P[k])
                        ctx.assume((o > 0).e if s > 0 else (o < 0).e)
        vor.vertices = V
        vor.ridge_points = np.array(topo["ridge_points"])
        vor.ridge_vertices = [list(r) for r in topo["ridge_vertices"]]
        vor.point_region = np.array(topo["point_region"])
        vor.regions = [list(r) for r in topo["regions"]]
        record["vor"] = vor
        return vor
    return Voronoi


ROTATIONS = {"id": (1.0, 0.0), "r345": (0.6, 0.8), "r-5-12-13": (-5.0 / 13.0, 12.0 / 13.0)}


def run_voronoi(rep, tier, layout, drop_at=None, L=None, scale="free", free_site=None, rotation="id", similarity=False, free_dims=2, free_axis="x", mask_shape="box"):
    Ld = L()
    HS = Ld["hvsr_spatial"]
    ref = LAYOUTS[layout]
    topo = topology(ref)
    n = len(ref)
    order = list(range(n))
    total = n + (0 if drop_at is None else 1)
    Settings.sqrt_mode = "positive"
    Settings.engine = "z3cli"

    def run(ctx):
        coords = np.empty((total, 2), dtype=object)
        if free_site is None:
            for i in range(total):
                coords[i, 0], coords[i, 1] = Sym.var(f"x{i}", ctx), Sym.var(f"y{i}", ctx)
        else:
            # BOUND (quick tier): the reference layout with ONE sensor anywhere in its Delaunay class, under an arbitrary
            # translation and an arbitrary positive uniform scaling (and a fixed rational rotation)
            if similarity:
                tx, ty, sc = Sym.var("tx", ctx), Sym.var("ty", ctx), Sym.var("sc", ctx, pos=True)
            else:
                tx, ty, sc = 0.0, 0.0, 1.0
            c, s_ = ROTATIONS[rotation]
            k = 0
            for i in range(total):
                if i == drop_at:
                    coords[i, 0], coords[i, 1] = Sym.var(f"x{i}", ctx), Sym.var(f"y{i}", ctx)
                    continue
                x0, y0 = ref[k]
                if k == free_site and not similarity:
                    if free_dims == 2:
                        x0, y0 = Sym.var("fx", ctx), Sym.var("fy", ctx)
                    elif free_axis == "x":
                        x0 = Sym.var("fx", ctx)
                    else:
                        y0 = Sym.var("fx", ctx)
                coords[i, 0] = Sym(Sym.lift((x0 * c - y0 * s_) * sc + tx))
                coords[i, 1] = Sym(Sym.lift((x0 * s_ + y0 * c) * sc + ty))
                k += 1
        keep = [i for i in range(total) if i != drop_at]
        if mask_shape == "diamond":
            box = Diamond(Sym.var("dcx", ctx), Sym.var("dcy", ctx), Sym.var("da", ctx, pos=True))
            for i in keep:
                ctx.assume(z3.And(*[e.e for e in box._edges(coords[i, 0], coords[i, 1])]))
            if drop_at is not None:
                ctx.assume(z3.Not(z3.And(*[(e.e) for e in box._edges(coords[drop_at, 0], coords[drop_at, 1])])))
        else:
            box = Box(Sym.var("bxl", ctx), Sym.var("bxh", ctx), Sym.var("byl", ctx), Sym.var("byh", ctx))
            ctx.assume(z3.And(box.xl.e < box.xh.e, box.yl.e < box.yh.e))
            for i in keep:
                ctx.assume(z3.And(box.xl.e < coords[i, 0].e, coords[i, 0].e < box.xh.e, box.yl.e < coords[i, 1].e, coords[i, 1].e < box.yh.e))
            if drop_at is not None:
                x, y = coords[drop_at]
                ctx.assume(z3.Or(x.e < box.xl.e, x.e > box.xh.e, y.e < box.yl.e, y.e > box.yh.e))
        record = {}
        HS.Voronoi = make_voronoi_stub(ctx, topo, ref, record)
        HS.Point, HS.Polygon = FakePoint, FakePolygon
        FakePolygon.made = []
        sp = HS.HvsrSpatial.__new__(HS.HvsrSpatial)
        sp.coordinates = coords
        real_arctan2 = type(HS.np).arctan2

        def arctan2(y, x, *a, **k):
            # branch decisions up to here fix the radius; the later ones only the starting vertex of the angular sort
            ctx.notes.setdefault("pc_at_sort", len(ctx.pc))
            return real_arctan2(HS.np, y, x, *a, **k)
        HS.np.arctan2 = arctan2
        try:
            regions, indices = sp._bounded_voronoi(box)
        finally:
            del HS.np.arctan2
        clipped = {tuple(id(v) for v in fp.pts[:-1, 0]) for fp in FakePolygon.made if getattr(fp, "clipped_with", None) is box}
        return coords, box, keep, record["vor"], regions, indices, clipped

    cache = {}
    nval = [0]
    o4_timeout = 15000 if tier == "quick" else 120000

    def decide(ctx, label, negated, W, key, timeout_ms, extra=(), full_pc=False):
        """One obligation, decided under the class assumptions and the branch decisions that precede the angular sort (those of
        the sort only select the starting vertex, which no obligation depends on); identical queries of other paths are reused."""
        rep.obligations += 1
        npc = len(ctx.pc) if full_pc else ctx.notes.get("pc_at_sort", len(ctx.pc))      # O5 is about a decision taken on this very path
        qkey = (z3.And(*ctx.pc[:npc]).sexpr() if npc else "", negated.sexpr())
        if qkey not in cache:
            cache[qkey] = ctx.query_assumptions_only(negated, *extra, timeout_ms=timeout_ms, pc_prefix=npc)
            fresh = True
        else:
            fresh = False
        r, mdl = cache[qkey]
        if r == z3.unsat:
            rep.discharged += 1
        elif r == z3.sat:
            if fresh:
                rep.candidate(W(mdl), label, key=key)
        elif fresh or label + ": solver returned unknown" not in rep.inconclusive:
            rep.inconclusive.append(label + ": solver returned unknown")
    sc_term = z3.Real("sc") if similarity else z3.RealVal(1)
    tx_term = z3.Real("tx") if similarity else z3.RealVal(0)
    ty_term = z3.Real("ty") if similarity else z3.RealVal(0)
    for ctx, (coords, box, keep, vor, regions, indices, clipped) in rep.explore(run, max_paths=24 if tier == "quick" else 100, timeout_ms=8000):
        rep.reachable(ctx)
        P = vor.points

        def W(m, coords=coords, box=box):
            val = concretiser(m)
            d = {"kind": "voronoi", "layout": layout, "free_site": free_site, "rotation": rotation, "coordinates": [[val(x), val(y)] for x, y in coords]}
            if mask_shape == "diamond":
                d["boundary"] = [[val(x), val(y)] for x, y in box.corners]
            else:
                d["box"] = [val(box.xl), val(box.xh), val(box.yl), val(box.yh)]
            return d
        # cross-validation of the Qhull contract: real scipy on a model of this path must return the class's tables
        if nval[0] < 3:
            r0, m0 = ctx.model()
            if r0 == z3.sat:
                nval[0] += 1
                rep.validation(dict(W(m0), kind="voronoi-contract", keep=keep))
        # culling and indices
        rep.obligations += 1
        if list(indices) == keep and len(regions) == len(keep):
            rep.discharged += 1
        else:
            rep.candidate(W(ctx.model()[1]), f"returned indices {list(indices)} are not the sensors inside the boundary {keep}", key="voronoi-indices")
            continue
        finite_ids = {id(vor.vertices[v, 0]): v for v in range(topo["nv"])}
        for i, poly in enumerate(regions):
            poly = np.asarray(poly, dtype=object)
            m = len(poly)
            cell_vertices = [v for v in topo["regions"][topo["point_region"][i]] if v >= 0]
            inf_ridges = [(p2 if p1 == i else p1) for (p1, p2), vs in zip(topo["ridge_points"], topo["ridge_vertices"]) if i in (p1, p2) and min(vs) < 0]
            is_far = [id(w[0]) not in finite_ids for w in poly]
            # O3 (structure)
            rep.obligations += 1
            got_finite = sorted(finite_ids[id(w[0])] for w, f in zip(poly, is_far) if not f)
            if got_finite == sorted(cell_vertices) and sum(is_far) == len(inf_ridges):
                rep.discharged += 1
            else:
                rep.candidate(W(ctx.model()[1]), f"region {i}: vertices {got_finite} + {sum(is_far)} far points, cell has {sorted(cell_vertices)} + {len(inf_ridges)} unbounded edges", key="voronoi-region-structure")
                continue
            # O5: the region handed over for clipping - or provably inside the boundary region already
            if tuple(id(v) for v in poly[:, 0]) not in clipped:
                cs_ = box.corners
                outside = z3.Or(*[(_orient(cs_[e], cs_[(e + 1) % len(cs_)], w) < 0).e for w in poly for e in range(len(cs_))])
                decide(ctx, f"region {i}: not intersected with the boundary region although a vertex can lie outside it (O5)", outside, W, "voronoi-region-not-clipped", 20000, full_pc=True)
            else:
                rep.obligations += 1
                rep.discharged += 1
            # O1
            for j, w in enumerate(poly):
                bad = z3.Or(*[(_d2(w, P[i]) > _d2(w, P[k])).e for k in range(n) if k != i])
                decide(ctx, f"region {i}: {'far point' if is_far[j] else 'vertex'} is in the closed cell of sensor {i} (O1)", bad, W, "voronoi-vertex-outside-cell", 20000)
            # O3 (far points on the unbounded edges)
            for j, w in enumerate(poly):
                if is_far[j]:
                    bad = z3.And(*[(_d2(w, P[i]) != _d2(w, P[k])).e for k in inf_ridges])
                    decide(ctx, f"region {i}: far point lies on an unbounded edge of the cell (O3)", bad, W, "voronoi-far-point-off-edge", 20000)
            # O2
            crosses = [_orient(poly[j], poly[(j + 1) % m], poly[(j + 2) % m]) for j in range(m)]
            if any(is_far):
                for j, c in enumerate(crosses):
                    decide(ctx, f"region {i}: consecutive vertices turn counter-clockwise (O2)", (c < 0).e, W, "voronoi-vertex-order", 20000)
            else:
                bad = z3.And(z3.Or(*[(c < 0).e for c in crosses]), z3.Or(*[(c > 0).e for c in crosses]))
                decide(ctx, f"region {i}: vertices in convex cyclic order (O2)", bad, W, "voronoi-vertex-order", 20000)
            # O4
            for j in range(m):
                if is_far[j] and is_far[(j + 1) % m]:
                    a, b = poly[j], poly[(j + 1) % m]
                    # BOUND of O4: the boundary rectangle within 1e3 layout units (x the uniform scaling), the free sensor within 1e2
                    u = sc_term * 1000
                    bxl, byl, bxh, byh = box.bounds
                    bounds = [bxl.e >= -u + tx_term, bxh.e <= u + tx_term, byl.e >= -u + ty_term, byh.e <= u + ty_term]
                    if free_site is not None and not similarity:
                        bounds += [z3.Real("fx") >= -100, z3.Real("fx") <= 100] + ([z3.Real("fy") >= -100, z3.Real("fy") <= 100] if free_dims == 2 else [])
                    for ci, c in enumerate(box.corners):
                        decide(ctx, f"region {i}: the chord between the far points leaves corner {ci} of the boundary region on its inner side (O4)",
                               (_orient(a, b, c) < 0).e, W, "voronoi-chord-cuts-boundary", o4_timeout, extra=bounds + list(ctx.notes.get("sqrt_defs", [])))
        rep.sample({"layout": layout, "retained": keep, "regions": [len(r) for r in regions]})


# ----------------------------------------------------------------------------- concrete side
def clip_cells(points, boundary_polygon):
    """Independent oracle: nearest-sensor cells inside a convex polygon by half-plane clipping (Sutherland-Hodgman)."""
    from fractions import Fraction as F
    pts = [(F(x), F(y)) for x, y in points]
    out = []
    for i, p in enumerate(pts):
        poly = [(F(x), F(y)) for x, y in boundary_polygon]
        for k, q in enumerate(pts):
            if k == i or not poly:
                continue
            # keep x with |x-p|^2 <= |x-q|^2  <=>  2 x.(q-p) <= |q|^2-|p|^2
            ax, ay = 2 * (q[0] - p[0]), 2 * (q[1] - p[1])
            b = q[0] ** 2 + q[1] ** 2 - p[0] ** 2 - p[1] ** 2
            new = []
            for j in range(len(poly)):
                s, e = poly[j], poly[(j + 1) % len(poly)]
                fs, fe = ax * s[0] + ay * s[1] - b, ax * e[0] + ay * e[1] - b
                if fs <= 0:
                    new.append(s)
                if (fs < 0 < fe) or (fe < 0 < fs):
                    t = fs / (fs - fe)
                    new.append((s[0] + t * (e[0] - s[0]), s[1] + t * (e[1] - s[1])))
            poly = new
        area = abs(sum(poly[j][0] * poly[(j + 1) % len(poly)][1] - poly[(j + 1) % len(poly)][0] * poly[j][1] for j in range(len(poly)))) / 2 if poly else F(0)
        out.append(area)
    return out


def validate(spec):
    """The Qhull contract against Qhull: for the concrete coordinates of a path model, scipy.spatial.Voronoi must return the
    ridges (with their finite / infinite status) and vertex-sensor incidences of the class, and vertices equidistant from
    their sensors."""
    from scipy.spatial import Voronoi
    coords = np.array(spec["coordinates"], dtype=float)
    pts = coords[spec["keep"]]
    topo = topology(LAYOUTS[spec["layout"]])
    try:
        vor = Voronoi(pts)
    except Exception as e:   # noqa
        return {"ok": False, "detail": f"Qhull raised {type(e).__name__} on a model of the class: {pts.tolist()}"}

    def shape(rp, rv):
        return sorted((tuple(sorted(map(int, p))), sum(1 for v in vs if v >= 0)) for p, vs in zip(rp, rv))
    if shape(vor.ridge_points.tolist(), vor.ridge_vertices) != shape(topo["ridge_points"], topo["ridge_vertices"]):
        return {"ok": False, "detail": f"Qhull's ridges for {pts.tolist()} differ from the class's: {shape(vor.ridge_points.tolist(), vor.ridge_vertices)}"}
    sites = {}
    for (p1, p2), vs in zip(vor.ridge_points.tolist(), vor.ridge_vertices):
        for v in vs:
            if v >= 0:
                sites.setdefault(v, set()).update((p1, p2))
    if sorted(sorted(x) for x in sites.values()) != sorted(topo["sites"].values()):
        return {"ok": False, "detail": "vertex-sensor incidences differ from the class's"}
    for v, ss in sites.items():
        d = [float(np.hypot(*(vor.vertices[v] - pts[k]))) for k in ss]
        if max(d) - min(d) > 1e-6 * max(1.0, max(d)):
            return {"ok": False, "detail": f"vertex {v} not equidistant from its sensors: {d}"}
    return {"ok": True}


def replay(spec):
    import hvsrpy
    from hvsrpy.hvsr_spatial import HvsrSpatial
    coords = np.array(spec["coordinates"], dtype=float)
    if spec.get("boundary"):
        boundary = np.array(spec["boundary"], dtype=float)
    else:
        xl, xh, yl, yh = [float(v) for v in spec["box"]]
        boundary = np.array([(xl, yl), (xh, yl), (xh, yh), (xl, yh)])
    nb = len(boundary)
    inside = [i for i, p in enumerate(coords) if all(_orient(boundary[e], boundary[(e + 1) % nb], p) > 0 for e in range(nb))]
    areas = clip_cells([tuple(coords[i]) for i in inside], [tuple(b) for b in boundary])
    tot = sum(areas)
    want = [float(a / tot) for a in areas]
    try:
        sp = HvsrSpatial.__new__(HvsrSpatial)
        sp.coordinates = coords
        got, idx = sp._voronoi_weights(boundary)
    except Exception as e:   # noqa
        return {"reproduced": True, "key": "voronoi-weights", "detail": f"{len(inside)} sensors inside: _voronoi_weights raised {type(e).__name__}: {e}"[:300]}
    got = np.asarray(got, dtype=float)
    if list(idx) != inside:
        return {"reproduced": True, "key": "voronoi-indices", "detail": f"indices {list(idx)} vs sensors inside {inside}"}
    err = float(np.max(np.abs(got - np.array(want))))
    bad = err > 1e-6 or abs(got.sum() - 1) > 1e-6 or (got < 0).any()
    return {"reproduced": bool(bad), "key": "voronoi-weights",
            "detail": f"sensors {coords[inside].tolist()} in boundary {boundary.tolist()}: weights {got.tolist()} (sum {got.sum()}) vs nearest-sensor area fractions {want}"[:600]}
