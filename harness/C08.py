"""C08 - reported peaks are the highest local maximum inside the search range.

The real HvsrCurve / HvsrTraditional / HvsrAzimuthal / HvsrDiffuseField source runs on symbolic curves,
symbolic (strictly increasing) frequency grids and symbolic search ranges; scipy's find_peaks (Cython)
is replaced by a transcription of _local_maxima_1d that is cross-validated against scipy on every
path witness.  Oracle = weakest reading of "strictly inside": interior indices are those strictly
between the nearest-sample images of the bounds, and only *strict* local maxima create a demand.
"""
import itertools

import numpy as np
import z3
from harness import pipeline as PP

from symx import loader
from symx.core import Sym, SymBool, Ctx, symarray, qval, model_value, is_nan
from symx.report import fl, concretiser

FUNCTIONS_Q = ["hvsr_curve.HvsrCurve._find_peak_unbounded", "hvsr_curve.HvsrCurve._search_range_to_index_range",
               "hvsr_curve.HvsrCurve._find_peak_bounded", "hvsr_curve.HvsrCurve.update_peaks_bounded",
               "hvsr_curve.HvsrCurve.__init__", "hvsr_traditional.HvsrTraditional.update_peaks_bounded",
               "hvsr_traditional.HvsrTraditional.__init__", "hvsr_traditional.HvsrTraditional.mean_curve_peak",
               "hvsr_azimuthal.HvsrAzimuthal.update_peaks_bounded", "hvsr_azimuthal.HvsrAzimuthal.mean_curve_peak",
               "hvsr_diffuse_field.HvsrDiffuseField.mean_curve_peak"]
STUBS = ["scipy.signal.find_peaks -> transcription of scipy.signal._peak_finding_utils._local_maxima_1d (no kwargs / height only); "
         "validated against scipy on every path witness"]
ASSUMPTIONS = ["real arithmetic for curve values and frequencies (comparisons only: no rounding is involved in peak picking)",
               "amplitudes >= 0 and frequency grid strictly increasing and >= 0 (constructor contract)"]
OUTSIDE = ["find_peaks_kwargs other than none/height", "curves longer than the bound"]
BOUNDS = {"quick": {"points_per_curve": "4-5", "curves": "<=2", "azimuths": "<=2", "range_updates": "<=2"},
          "thorough": {"points_per_curve": "4-7", "curves": "<=3", "azimuths": "<=2", "range_updates": "<=3"}}
INSTANCE_TIMEOUT = {"quick": 200, "thorough": 700}
_L = None


def L():
    global _L
    if _L is None:
        _L = loader.load(["hvsr_curve", "hvsr_traditional", "hvsr_azimuthal", "hvsr_diffuse_field"])
    return _L


def functions_encoded():
    return L().functions_encoded(FUNCTIONS_Q)


def instances(tier):
    out = []
    ns = [4, 5] if tier == "quick" else [4, 5, 6, 7]
    kinds = [(False, False), (True, False), (False, True), (True, True)]
    for n in ns:
        for lo, hi in kinds:
            for grid in (["concrete"] if n > 5 else ["concrete", "symbolic"]):
                out.append({"name": f"curve_n{n}_lo{int(lo)}_hi{int(hi)}_{grid}", "func": "run_curve",
                            "kwargs": {"n": n, "use_lo": lo, "use_hi": hi, "grid": grid}})
    # sequences of updates on one curve (stale peaks / early return)
    for n in ([4] if tier == "quick" else [4, 5]):
        for k1, k2 in itertools.product(kinds, kinds):
            out.append({"name": f"updates_n{n}_{int(k1[0])}{int(k1[1])}_{int(k2[0])}{int(k2[1])}", "func": "run_updates",
                        "kwargs": {"n": n, "k1": k1, "k2": k2}})
    # traditional / azimuthal objects, mean curve peak, diffuse field
    for w, n in ([(2, 4)] if tier == "quick" else [(2, 4), (2, 5), (3, 4)]):
        for lo, hi in kinds:
            out.append({"name": f"trad_w{w}_n{n}_lo{int(lo)}_hi{int(hi)}", "func": "run_traditional",
                        "kwargs": {"w": w, "n": n, "use_lo": lo, "use_hi": hi}})
    # azimuthal: range A on the object, range B on a member (as the rejection algorithms do), range A on the object again
    for ka, kb in (((True, True), (False, True)), ((False, False), (True, False)), ((True, False), (False, False))):
        out.append({"name": f"azimuthal_updates_{int(ka[0])}{int(ka[1])}_{int(kb[0])}{int(kb[1])}", "func": "run_azimuthal_updates", "kwargs": {"ka": ka, "kb": kb}})
    for lo, hi in kinds:
        out.append({"name": f"azimuthal_lo{int(lo)}_hi{int(hi)}", "func": "run_azimuthal", "kwargs": {"use_lo": lo, "use_hi": hi}})
        for n in ([4, 5] if tier == "quick" else [4, 5, 6]):
            out.append({"name": f"diffuse_n{n}_lo{int(lo)}_hi{int(hi)}", "func": "run_diffuse", "kwargs": {"n": n, "use_lo": lo, "use_hi": hi}})
        for dist in ("normal", "lognormal"):
            out.append({"name": f"meanpeak_{dist}_lo{int(lo)}_hi{int(hi)}", "func": "run_mean_peak",
                        "kwargs": {"dist": dist, "use_lo": lo, "use_hi": hi}})
    return out


# ----------------------------------------------------------------------------- symbolic inputs and oracle
def mk_grid(ctx, n, grid, tag="f"):
    if grid == "concrete":
        return np.arange(1.0, n + 1)
    f = symarray(tag, (n,), ctx)
    ctx.assume(f[0].e >= 0)
    for j in range(1, n):
        ctx.assume(f[j].e > f[j - 1].e)
    return f


def mk_curve(ctx, n, tag="a"):
    return symarray(tag, (n,), ctx, nonneg=True)


def mk_range(ctx, use_lo, use_hi, tag=""):
    lo = Sym(z3.Real("flo" + tag)) if use_lo else None
    hi = Sym(z3.Real("fhi" + tag)) if use_hi else None
    return lo, hi


def _absdiff(a, b):
    d = a - b
    return z3.If(d >= 0, d, -d)


def nearest_index(frq, v, n):
    """z3 Int term: first index minimising |f_i - v| (np.argmin semantics)."""
    fe = [Sym.lift(x) for x in frq]
    idx = z3.IntVal(n - 1)
    for i in range(n - 2, -1, -1):
        best = z3.And([_absdiff(fe[i], v) <= _absdiff(fe[k], v) for k in range(n)])
        idx = z3.If(best, z3.IntVal(i), idx)
    return idx


def order_keys(a, extra=()):
    """Terms that order the curve values: log-space terms when every value carries one (exp is
    monotone, and the code's own comparisons are made in that space), else the values themselves."""
    vals = list(a) + [x for x in extra if not (x is None or is_nan(x))]
    if all(isinstance(x, Sym) and x.lg is not None for x in vals):
        return (lambda x: x.lg)
    return Sym.lift


def oracle_terms(frq, a, lo, hi, key=Sym.lift):
    n = len(a)
    ae = [key(x) for x in a]
    il = z3.IntVal(-1) if lo is None else nearest_index(frq, lo.e, n)
    ih = z3.IntVal(n) if hi is None else nearest_index(frq, hi.e, n)
    strict = {i: z3.And(ae[i - 1] < ae[i], ae[i] > ae[i + 1], il < i, i < ih) for i in range(1, n - 1)}
    return il, ih, strict


def negated_peak_obligation(frq, a, lo, hi, pf, pa):
    """z3 Bool: the reported (pf, pa) VIOLATES the property on curve a (to be shown unsat)."""
    n = len(a)
    key = order_keys(a, [pa])
    ae = [key(x) for x in a]
    fe = [Sym.lift(x) for x in frq]
    il, ih, strict = oracle_terms(frq, a, lo, hi, key)
    if pf is None or is_nan(pf):
        return z3.Or(list(strict.values())) if strict else z3.BoolVal(False)
    pfe, pae = Sym.lift(pf), key(pa)
    good = []
    for p in range(1, n - 1):
        # p is a local maximum: it lies on a flat run a[l..r] (l <= p <= r) whose outer neighbours are strictly lower
        runs = []
        for l in range(1, p + 1):
            for r in range(p, n - 1):
                runs.append(z3.And([ae[i] == ae[p] for i in range(l, r + 1)] + [ae[l - 1] < ae[l], ae[r + 1] < ae[r]]))
        conds = [pfe == fe[p], pae == ae[p], z3.Or(runs), il < p, p < ih]
        if lo is not None:
            conds.append(fe[p] > lo.e)
        if hi is not None:
            conds.append(fe[p] < hi.e)
        conds += [z3.Implies(strict[i], ae[i] <= pae) for i in strict]
        good.append(z3.And(conds))
    return z3.Not(z3.Or(good)) if good else z3.BoolVal(True)


def _vals(m, arr):
    val = concretiser(m)
    return [val(x) for x in arr]


def _rng(m, lo, hi):
    val = concretiser(m)
    return [val(lo), val(hi)]


def curve_witness(cls, frq, amps, ranges):
    def w(m):
        return {"kind": "peaks", "cls": cls, "frequency": _vals(m, frq),
                "amplitude": [_vals(m, a) for a in amps], "ranges": [_rng(m, lo, hi) for lo, hi in ranges]}
    return w


def add_validation(rep, ctx, cls, frq, amps, ranges, got):
    """Concolic cross-check spec: model of the path condition + what the engine reported."""
    r, m = ctx.model()
    if r != z3.sat:
        return
    spec = curve_witness(cls, frq, amps, ranges)(m)
    val = concretiser(m)
    spec["expect"] = [["nan" if pf is None else val(pf), "nan" if pa is None else val(pa)] for pf, pa in got]
    spec["instance"] = rep.name
    rep.validation(spec)
    rep.sample({"frequency": spec["frequency"], "amplitude": spec["amplitude"], "ranges": spec["ranges"], "reported": spec["expect"]})


# ----------------------------------------------------------------------------- instances
def run_curve(rep, tier, n, use_lo, use_hi, grid):
    HC = L()["hvsr_curve"].HvsrCurve

    def run(ctx):
        frq = mk_grid(ctx, n, grid)
        a = mk_curve(ctx, n)
        lo, hi = mk_range(ctx, use_lo, use_hi)
        c = HC(frq, a)
        unb = (c.peak_frequency, c.peak_amplitude)
        c.update_peaks_bounded(search_range_in_hz=(lo, hi))
        return frq, a, lo, hi, unb, (c.peak_frequency, c.peak_amplitude)

    for ctx, (frq, a, lo, hi, unb, got) in rep.explore(run, max_paths=1500 if tier == "quick" else 20000):
        rep.reachable(ctx)
        rep.prove(ctx, "constructor peak (unbounded)", negated_peak_obligation(frq, a, None, None, *unb),
                  witness=curve_witness("HvsrCurve", frq, [a], [(None, None)]))
        rep.prove(ctx, "bounded peak", negated_peak_obligation(frq, a, lo, hi, *got),
                  witness=curve_witness("HvsrCurve", frq, [a], [(lo, hi)]))
        add_validation(rep, ctx, "HvsrCurve", frq, [a], [(lo, hi)], [got])


def run_updates(rep, tier, n, k1, k2):
    HC = L()["hvsr_curve"].HvsrCurve

    def run(ctx):
        frq = mk_grid(ctx, n, "concrete")
        a = mk_curve(ctx, n)
        r1 = mk_range(ctx, *k1, tag="1")
        r2 = mk_range(ctx, *k2, tag="2")
        c = HC(frq, a)
        c.update_peaks_bounded(search_range_in_hz=r1)
        # the second range is given as a list (tuple/list spellings must behave identically)
        c.update_peaks_bounded(search_range_in_hz=list(r2))
        return frq, a, r1, r2, (c.peak_frequency, c.peak_amplitude), c._search_range_in_hz

    for ctx, (frq, a, r1, r2, got, stored) in rep.explore(run, max_paths=5000 if tier == "quick" else 40000):
        rep.reachable(ctx)
        rep.prove(ctx, "peak after a sequence of range updates", negated_peak_obligation(frq, a, r2[0], r2[1], *got),
                  witness=curve_witness("HvsrCurve", frq, [a], [r1, r2]))
        # stored range must be the last one given
        bad = []
        for s, r in zip(stored, r2):
            if (s is None) != (r is None):
                bad.append(z3.BoolVal(True))
            elif s is not None:
                bad.append(Sym.lift(s) != Sym.lift(r))
        rep.prove(ctx, "stored search range is the last one", z3.Or(bad) if bad else z3.BoolVal(False),
                  witness=curve_witness("HvsrCurve", frq, [a], [r1, r2]))
        add_validation(rep, ctx, "HvsrCurve", frq, [a], [r1, r2], [got])


def _check_traditional(rep, ctx, h, frq, amps, lo, hi, cls, ranges, label=""):
    got = []
    HC = L()["hvsr_curve"].HvsrCurve
    for i, a in enumerate(amps):
        pf, pa = h._main_peak_frq[i], h._main_peak_amp[i]
        got.append((pf, pa))
        # the same curve as a single HvsrCurve must give the same answer
        c = HC(frq, a)
        c.update_peaks_bounded(search_range_in_hz=(lo, hi))
        rep.obligations += 1
        same = (is_nan(pf) and is_nan(c.peak_frequency)) or (not is_nan(pf) and not is_nan(c.peak_frequency)
                                                             and ctx.check(z3.Or(Sym.lift(pf) != Sym.lift(c.peak_frequency), Sym.lift(pa) != Sym.lift(c.peak_amplitude))) == z3.unsat)
        if same:
            rep.discharged += 1
        else:
            rep.candidate(dict(curve_witness(cls, frq, amps, ranges)(ctx.model()[1]), check="curve-vs-window"),
                          f"{label}window {i}: peak ({pf}, {pa}) differs from the peak of the same curve as a single HvsrCurve ({c.peak_frequency}, {c.peak_amplitude})",
                          key="object-types-disagree")
        rep.prove(ctx, f"{label}window {i} peak", negated_peak_obligation(frq, a, lo, hi, pf, pa),
                  witness=curve_witness(cls, frq, amps, ranges))
        absent = is_nan(pf)
        # absent peak <=> window does not enter the resonance statistics
        if bool(h.valid_peak_boolean_mask[i]) == absent:
            rep.candidate(dict(curve_witness(cls, frq, amps, ranges)(ctx.model()[1]), check="peak-mask"),
                          f"{label}window {i}: valid_peak mask {h.valid_peak_boolean_mask[i]} but peak absent={absent}", key="peak-mask-inconsistent")
        rep.obligations += 1
        rep.discharged += int(bool(h.valid_peak_boolean_mask[i]) != absent)
    return got


def run_traditional(rep, tier, w, n, use_lo, use_hi):
    HT = L()["hvsr_traditional"].HvsrTraditional

    def run(ctx):
        frq = mk_grid(ctx, n, "concrete")
        amps = symarray("a", (w, n), ctx, nonneg=True)
        lo, hi = mk_range(ctx, use_lo, use_hi)
        h = HT(frq, amps)
        h.update_peaks_bounded(search_range_in_hz=(lo, hi))
        return frq, amps, lo, hi, h

    for ctx, (frq, amps, lo, hi, h) in rep.explore(run, max_paths=1500 if tier == "quick" else 20000):
        rep.reachable(ctx)
        got = _check_traditional(rep, ctx, h, frq, list(amps), lo, hi, "HvsrTraditional", [(lo, hi)])
        add_validation(rep, ctx, "HvsrTraditional", frq, list(amps), [(lo, hi)], got)


def run_azimuthal(rep, tier, use_lo, use_hi):
    HT = L()["hvsr_traditional"].HvsrTraditional
    HA = L()["hvsr_azimuthal"].HvsrAzimuthal
    n = 4

    def run(ctx):
        frq = mk_grid(ctx, n, "concrete")
        a0 = symarray("a", (1, n), ctx, nonneg=True)
        a1 = symarray("b", (1, n), ctx, nonneg=True)
        lo, hi = mk_range(ctx, use_lo, use_hi)
        az = HA([HT(frq, a0), HT(frq, a1)], [0.0, 90.0])
        az.update_peaks_bounded(search_range_in_hz=(lo, hi))
        return frq, [a0[0], a1[0]], lo, hi, az

    for ctx, (frq, amps, lo, hi, az) in rep.explore(run, max_paths=1500 if tier == "quick" else 20000):
        rep.reachable(ctx)
        got = []
        for k, h in enumerate(az.hvsrs):
            got += _check_traditional(rep, ctx, h, frq, [amps[k]], lo, hi, "HvsrAzimuthal", [(lo, hi)], label=f"azimuth {k} ")
        add_validation(rep, ctx, "HvsrAzimuthal", frq, amps, [(lo, hi)], got)


def run_azimuthal_updates(rep, tier, ka, kb):
    HT = L()["hvsr_traditional"].HvsrTraditional
    HA = L()["hvsr_azimuthal"].HvsrAzimuthal
    n = 4

    def run(ctx):
        frq = mk_grid(ctx, n, "concrete")
        a0 = symarray("a", (1, n), ctx, nonneg=True)
        a1 = symarray("b", (1, n), ctx, nonneg=True)
        ra = mk_range(ctx, *ka, tag="A")
        rb = mk_range(ctx, *kb, tag="B")
        az = HA([HT(frq, a0), HT(frq, a1)], [0.0, 90.0])
        az.update_peaks_bounded(search_range_in_hz=ra)
        for h in az.hvsrs:                       # what frequency_domain_window_rejection / manual rejection do
            h.update_peaks_bounded(search_range_in_hz=rb)
        az.update_peaks_bounded(search_range_in_hz=ra)
        return frq, [a0[0], a1[0]], ra, rb, az

    for ctx, (frq, amps, ra, rb, az) in rep.explore(run, max_paths=1500 if tier == "quick" else 20000):
        for k, h in enumerate(az.hvsrs):
            _check_traditional(rep, ctx, h, frq, [amps[k]], ra[0], ra[1], "HvsrAzimuthal", [ra, rb, ra], label=f"after updates A, B (member), A: azimuth {k} ")


def run_diffuse(rep, tier, n, use_lo, use_hi):
    HD = L()["hvsr_diffuse_field"].HvsrDiffuseField

    def run(ctx):
        frq = mk_grid(ctx, n, "concrete")
        a = mk_curve(ctx, n)
        lo, hi = mk_range(ctx, use_lo, use_hi)
        d = HD(frq, a)
        d.update_peaks_bounded(search_range_in_hz=(lo, hi))
        try:
            mp = d.mean_curve_peak(search_range_in_hz=(lo, hi))
        except ValueError:
            mp = (None, None)
        return frq, a, lo, hi, (d.peak_frequency, d.peak_amplitude), mp

    for ctx, (frq, a, lo, hi, got, mp) in rep.explore(run, max_paths=1500 if tier == "quick" else 20000):
        rep.reachable(ctx)
        rep.prove(ctx, "diffuse-field curve peak", negated_peak_obligation(frq, a, lo, hi, *got),
                  witness=curve_witness("HvsrDiffuseField", frq, [a], [(lo, hi)]))
        rep.prove(ctx, "diffuse-field mean-curve peak", negated_peak_obligation(frq, a, lo, hi, *mp),
                  witness=curve_witness("HvsrDiffuseField", frq, [a], [(lo, hi)]))
        add_validation(rep, ctx, "HvsrDiffuseField", frq, [a], [(lo, hi)], [got, mp])


def run_mean_peak(rep, tier, dist, use_lo, use_hi):
    """mean_curve_peak of a traditional object: peak of the *object's own* mean curve in the stored range."""
    HT = L()["hvsr_traditional"].HvsrTraditional
    n, w = 4, 2

    def run(ctx):
        frq = mk_grid(ctx, n, "concrete")
        amps = symarray("a", (w, n), ctx, pos="exp" if dist == "lognormal" else True)
        lo, hi = mk_range(ctx, use_lo, use_hi)
        h = PP.shell_traditional(HT)
        h.frequency, h.amplitude, h.n_curves, h.meta = frq, amps, w, {}
        h.valid_window_boolean_mask = np.ones(w, dtype=bool)
        h.valid_peak_boolean_mask = np.ones(w, dtype=bool)
        h._main_peak_frq = np.empty(w, dtype=object)
        h._main_peak_amp = np.empty(w, dtype=object)
        h._search_range_in_hz, h._find_peaks_kwargs = (lo, hi), {}
        mc = h.mean_curve(dist)
        try:
            mp = h.mean_curve_peak(dist)
        except ValueError:
            mp = (None, None)
        return frq, amps, mc, lo, hi, mp

    for ctx, (frq, amps, mc, lo, hi, mp) in rep.explore(run, max_paths=1500 if tier == "quick" else 20000):
        rep.reachable(ctx)
        rep.prove(ctx, f"mean-curve peak ({dist})", negated_peak_obligation(frq, mc, lo, hi, *mp),
                  witness=curve_witness("HvsrTraditional.mean_curve_peak:" + dist, frq, list(amps), [(lo, hi)]))


# ----------------------------------------------------------------------------- concrete side (clean process)
def _concrete_oracle(frq, a, lo, hi, pf, pa):
    """Same weakest-reading oracle on floats.  Returns (violated, only_last_interior_index_missed)."""
    n = len(a)
    il = -1 if lo is None else int(np.argmin(np.abs(frq - lo)))
    ih = n if hi is None else int(np.argmin(np.abs(frq - hi)))
    strict = [i for i in range(1, n - 1) if a[i - 1] < a[i] > a[i + 1] and il < i < ih]

    def ok(strict_set):
        if pf is None or (isinstance(pf, float) and pf != pf):
            return not strict_set
        def flat_top(p):
            l = p
            while l > 0 and a[l - 1] == a[p]:
                l -= 1
            r = p
            while r < n - 1 and a[r + 1] == a[p]:
                r += 1
            return l >= 1 and r <= n - 2 and a[l - 1] < a[p] and a[r + 1] < a[p]
        for p in range(1, n - 1):
            if (pf == frq[p] and pa == a[p] and flat_top(p) and il < p < ih
                    and (lo is None or frq[p] > lo) and (hi is None or frq[p] < hi)
                    and all(a[i] <= pa for i in strict_set)):
                return True
        return False

    violated = not ok(strict)
    only_last = violated and hi is not None and ok([i for i in strict if i != ih - 1])
    return violated, only_last


def _num(x):
    return float("nan") if x == "nan" else (None if x is None else float(x))


def _build(spec):
    import hvsrpy
    frq = np.array(spec["frequency"], dtype=float)
    amps = [np.array(a, dtype=float) for a in spec["amplitude"]]
    cls = spec["cls"]
    ranges = [tuple(None if v is None else float(v) for v in r) for r in spec["ranges"]]
    rows = []          # (curve, reported pf, reported pa)
    if cls == "HvsrCurve":
        c = hvsrpy.HvsrCurve(frq, amps[0])
        for r in ranges:
            c.update_peaks_bounded(search_range_in_hz=r)
        rows.append((amps[0], c.peak_frequency, c.peak_amplitude))
    elif cls == "HvsrDiffuseField":
        c = hvsrpy.HvsrDiffuseField(frq, amps[0])
        for r in ranges:
            c.update_peaks_bounded(search_range_in_hz=r)
        rows.append((amps[0], c.peak_frequency, c.peak_amplitude))
        try:
            mp = c.mean_curve_peak(search_range_in_hz=ranges[-1])
        except ValueError:
            mp = (float("nan"), float("nan"))
        rows.append((amps[0], mp[0], mp[1]))
    elif cls == "HvsrTraditional":
        h = hvsrpy.HvsrTraditional(frq, np.array(amps))
        for r in ranges:
            h.update_peaks_bounded(search_range_in_hz=r)
        for i, a in enumerate(amps):
            rows.append((a, h._main_peak_frq[i], h._main_peak_amp[i], bool(h.valid_peak_boolean_mask[i])))
    elif cls == "HvsrAzimuthal":
        az = hvsrpy.HvsrAzimuthal([hvsrpy.HvsrTraditional(frq, a) for a in amps], [0.0, 90.0][:len(amps)])
        for k, r in enumerate(ranges):
            if len(ranges) == 3 and k == 1:
                for h in az.hvsrs:
                    h.update_peaks_bounded(search_range_in_hz=r)
            else:
                az.update_peaks_bounded(search_range_in_hz=r)
        for h, a in zip(az.hvsrs, amps):
            rows.append((a, h._main_peak_frq[0], h._main_peak_amp[0], bool(h.valid_peak_boolean_mask[0])))
    elif cls.startswith("HvsrTraditional.mean_curve_peak:"):
        dist = cls.split(":")[1]
        h = hvsrpy.HvsrTraditional(frq, np.array(amps))
        h.update_peaks_bounded(search_range_in_hz=ranges[-1])
        h.valid_window_boolean_mask[:] = True
        try:
            mp = h.mean_curve_peak(dist)
        except ValueError:
            mp = (float("nan"), float("nan"))
        rows.append((h.mean_curve(dist), mp[0], mp[1]))
    else:
        raise ValueError(cls)
    return frq, ranges, rows


def replay(spec):
    frq, ranges, rows = _build(spec)
    lo, hi = ranges[-1]
    if spec.get("check") == "curve-vs-window":
        import hvsrpy
        for row in rows:
            c = hvsrpy.HvsrCurve(frq, row[0])
            for r in ranges:
                c.update_peaks_bounded(search_range_in_hz=r)
            a, b = float(row[1]), float(c.peak_frequency)
            if not ((a != a and b != b) or (a == b and float(row[2]) == float(c.peak_amplitude))):
                return {"reproduced": True, "key": "object-types-disagree", "detail": f"curve {list(row[0])} range {(lo, hi)}: window peak ({row[1]}, {row[2]}) vs HvsrCurve ({c.peak_frequency}, {c.peak_amplitude})"}
    worst = None
    for row in rows:
        a, pf, pa = row[0], float(row[1]), float(row[2])
        v, only_last = _concrete_oracle(frq, a, lo, hi, pf, pa)
        if len(row) > 3 and (row[3] == (pf != pf)):
            return {"reproduced": True, "key": "peak-mask-inconsistent", "detail": f"mask {row[3]} with peak {pf}"}
        if v:
            key = "upper-bound-drops-last-interior-sample" if only_last else "peak-not-highest-interior-local-maximum"
            det = f"curve {list(a)} on {list(frq)} Hz, range {(lo, hi)}: reported peak ({pf}, {pa})"
            if worst is None or not only_last:
                worst = {"reproduced": True, "key": key, "detail": det}
    return worst or {"reproduced": False, "detail": "oracle satisfied on the real library"}


def validate(spec):
    frq, ranges, rows = _build(spec)
    exp = spec["expect"]
    for row, (ef, ea) in zip(rows, exp):
        pf, pa = float(row[1]), float(row[2])
        ef, ea = _num(ef), _num(ea)
        same = (pf != pf and ef != ef) or (pf == ef and abs(pa - ea) <= 1e-9 * max(1, abs(ea)))
        if not same:
            return {"ok": False, "detail": f"engine reported ({ef},{ea}), library ({pf},{pa}) for {spec['amplitude']} {spec['ranges']}"}
    return {"ok": True}
