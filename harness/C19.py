"""C19 - command-line batch output equals the library pipeline for each file.

Schedule model (assumption about multiprocessing.Pool.starmap, stated): the tasks are cut into consecutive chunks; the
arguments of one chunk are pickled together, so the repeated settings objects are ONE object per chunk and a fresh copy
in every other chunk; which worker runs which chunk, and in what order, is arbitrary.  The only channel between the files
of a batch is therefore state written into the settings objects within a chunk.
(1) SYMX runs the real cli._process_hvsr with read / preprocess / process / plotting / writing replaced by recorders and
    checks what the worker hands to the library: are the very settings objects of the chunk passed on, or private copies?
(2) SYMX runs the real preprocess + process for two files of different length one after the other on the objects the worker
    passes on, and compares (as terms) the second file's result with its result on freshly loaded settings;
(3) CrossHair, on the real prepare_fft_settings with symbolic sample counts: the FFT length of a file does not depend on the
    file handled before it with the same settings object.
"""
import copy
import sys

import numpy as np
import z3

from symx import loader
from symx.core import Sym, Ctx, symarray, qval
from symx.report import fl, concretiser
from symx.xh import crosshair_obligation, replay_counterexample, real_hvsrpy
from harness import pipeline as PP
from harness import C01

FUNCTIONS_Q = ["cli._process_hvsr", "processing.prepare_fft_settings", "processing.process", "preprocessing.preprocess", "processing.traditional_hvsr_processing"]
STUBS = C01.STUBS + ["hvsrpy.read / plotting / writing inside the worker -> recorders (the data flow of the settings objects is what is examined)",
                     "multiprocessing.Pool.starmap -> the schedule model above (one settings object per chunk)"]
ASSUMPTIONS = ["the schedule model of Pool.starmap (pickling per chunk)", "floats as reals"]
OUTSIDE = ["the OS scheduler and pickling themselves", "figure output"]
BOUNDS = {"quick": {"files_per_chunk": 2, "samples": "3 and 5", "n_fft": "4 and 8", "sample_counts_crosshair": "<= 300000"},
          "thorough": {"files_per_chunk": 2, "samples": "3 and 5", "n_fft": "4 and 8", "sample_counts_crosshair": "<= 300000"}}
INSTANCE_TIMEOUT = {"quick": 230, "thorough": 900}
DT = 0.5
_L = None


def L():
    global _L
    if _L is None:
        _L = loader.load(["cli", "processing", "preprocessing", "seismic_recording_3c", "settings", "object_io"], find_peaks=PP.no_peaks)
        loader.lower_fft_floor(_L, 4)
    return _L


def functions_encoded():
    return L().functions_encoded(FUNCTIONS_Q)


def instances(tier):
    out = [{"name": "cli_output_association", "func": "run_cli_association", "kwargs": {}},
           {"name": "worker_dataflow", "func": "run_dataflow", "kwargs": {}},
           {"name": "crosshair_chunk_fft_length", "func": "run_xh", "kwargs": {}, "timeout": 300}]
    for method in ("geometric_mean", "single_azimuth", "azimuthal", "diffuse_field"):
        for order in ("long_then_short", "short_then_long"):
            out.append({"name": f"chunk_{method}_{order}", "func": "run_chunk", "kwargs": {"method": method, "order": order}})
    # a settings file that carries an explicit fft_settings dictionary (as written by settings.save() after a process() call)
    for method in ("geometric_mean", "azimuthal"):
        out.append({"name": f"chunk_{method}_explicit_fft", "func": "run_chunk", "kwargs": {"method": method, "order": "long_then_short", "explicit_fft": True}})
        # files with different time steps and a Butterworth filter requested; the reference for the second file is computed
        # by a freshly loaded copy of the library (pristine module-level state), as a worker that never saw the first file
        out.append({"name": f"chunk_{method}_two_time_steps_filtered", "func": "run_chunk", "kwargs": {"method": method, "order": "long_then_short", "dts": [0.5, 0.25], "filtered": True}})
    return out


def run_xh(rep, tier):
    Ld = L()
    S = Ld["settings"]
    from harness.C09 import mutable_ids
    pre, pro = S.HvsrPreProcessingSettings(), S.HvsrTraditionalProcessingSettings(fft_settings={"n": 4})
    snap = (repr(pre.attr_dict), repr(pro.attr_dict))
    got_pre, got_pro = worker_passes(Ld)(pre, pro)
    unchanged = snap == (repr(pre.attr_dict), repr(pro.attr_dict))
    if got_pre is pre or got_pro is pro or not unchanged:
        copies = "0"
    else:
        shared_nested = (set(mutable_ids(got_pro)) & set(mutable_ids(pro))) | (set(mutable_ids(got_pre)) & set(mutable_ids(pre)))
        copies = "2" if shared_nested else "1"
    rep.notes.append("what the worker hands to the library for the chunk's settings objects: " + {"0": "the chunk's own objects", "1": "private deep copies", "2": "copies that share nested objects"}[copies])
    r = crosshair_obligation(rep, "xhair/C19_fft.py", "chunk_fft_length", twin="chunk_fft_length_reach", timeout_s=60 if tier == "quick" else 200,
                             key="fft-length-leaks-within-chunk", extra_env={"XH_WORKER_COPIES": copies})
    if r["status"] == "refuted":
        # the same witness, end to end through the real worker function on files written to disk
        rep.candidate({"kind": "chunk", "method": "geometric_mean", "order": "long_then_short", "explicit_fft": "True" in str(r.get("counterexample", {}).get("args", ""))}, "worker output for a file depends on the file handled before it in the chunk", key="output-depends-on-chunk-history")


def worker_passes(Ld):
    """Run the real worker with recorders; -> (object passed to preprocess, object passed to process) for given settings objects."""
    CLI = Ld["cli"]
    pkg = CLI.hvsrpy
    seen = {}
    saved = {k: getattr(pkg, k, None) for k in ("read", "preprocess", "process", "write_hvsr_object_to_file", "plot_single_panel_hvsr_curves", "HVSRPY_MPL_STYLE")}

    def run(pre, pro):
        pkg.read = lambda fnames, **k: ["records-of-" + str(fnames)]
        pkg.preprocess = lambda recs, st: (seen.__setitem__("pre", st), recs)[1]
        pkg.process = lambda recs, st: (seen.__setitem__("pro", st), "hvsr")[1]
        pkg.write_hvsr_object_to_file = lambda *a, **k: None
        pkg.plot_single_panel_hvsr_curves = lambda *a, **k: None
        pkg.HVSRPY_MPL_STYLE = {}
        real_print = CLI.__dict__.get("print")
        CLI.print = lambda *a, **k: None
        try:
            CLI._process_hvsr("file.mseed", pre, pro, {"no_figure": True, "no_file": False, "distribution_mc": "lognormal", "distribution_fn": "lognormal", "ymax": 10})
        finally:
            for k, v in saved.items():
                if v is None:
                    if hasattr(pkg, k):
                        delattr(pkg, k)
                else:
                    setattr(pkg, k, v)
            if real_print is None:
                del CLI.print
        return seen.get("pre"), seen.get("pro")
    return run


class FakePool:
    """multiprocessing.Pool run in-process: tasks executed one after the other in the order given (any assignment of tasks to
    workers gives the same files, since workers share nothing but what the parent passes / collects)."""

    def __init__(self, *a, **k):
        pass

    def __enter__(self):
        return self

    def __exit__(self, *a):
        return False

    def starmap(self, fn, it, chunksize=None):
        return [fn(*args) for args in list(it)]

    def map(self, fn, it, chunksize=None):
        return [fn(a) for a in list(it)]

    imap = map

    def close(self):
        pass

    def join(self):
        pass


FILES = ["b_site.mseed", "a_site.mseed", "c_site.mseed"]


def raw_cli(Ld):
    """the function behind the click command (click is a recorder here: the decorated function is in its call log)"""
    for name, args, kw, r in Ld.logs["click"]:
        if args and callable(args[0]) and getattr(args[0], "__name__", "") == "cli":
            return args[0]
    raise RuntimeError("cli function not found in the click log")


def run_cli_association(rep, tier):
    """the whole command: every file named on the command line - in any order, with any number of processes - gets exactly one
    output, named after it, holding the result of read -> preprocess -> process of THAT file"""
    import itertools
    Ld = L()
    CLI = Ld["cli"]
    pkg = CLI.hvsrpy
    S = Ld["settings"]
    perms = list(itertools.permutations(range(3)))

    def run(ctx):
        order = perms[ctx.choose(len(perms), tag="order")]
        nproc = 1 + ctx.choose(3, tag="nproc")
        names = [FILES[i] for i in order]
        written = []
        saved = {k: getattr(pkg, k, None) for k in ("read", "preprocess", "process", "write_hvsr_object_to_file", "plot_single_panel_hvsr_curves", "HVSRPY_MPL_STYLE")}
        saved_cli = {k: CLI.__dict__.get(k) for k in ("Pool", "read_settings_object_from_file", "print")}
        pkg.read = lambda fnames, **k: "rec:" + str(fnames[0][0])
        pkg.preprocess = lambda recs, st: "pre:" + recs
        pkg.process = lambda recs, st: "hv:" + recs
        pkg.write_hvsr_object_to_file = lambda hv, out, **k: written.append((str(out), hv))
        pkg.plot_single_panel_hvsr_curves = lambda *a, **k: None
        pkg.HVSRPY_MPL_STYLE = {}
        CLI.Pool = FakePool
        CLI.read_settings_object_from_file = lambda f: S.HvsrPreProcessingSettings() if "pre" in str(f) else S.HvsrTraditionalProcessingSettings()
        CLI.print = lambda *a, **k: None
        try:
            raw_cli(Ld)(None, file_names=tuple(names), preprocessing_settings_file="pre.json", processing_settings_file="pro.json", distribution_fn="lognormal",
                        distribution_mc="lognormal", no_figure=True, no_file=False, ymax=10.0, nproc=nproc)
        finally:
            for k, v in saved.items():
                if v is None:
                    if hasattr(pkg, k):
                        delattr(pkg, k)
                else:
                    setattr(pkg, k, v)
            for k, v in saved_cli.items():
                if v is None:
                    CLI.__dict__.pop(k, None)
                else:
                    setattr(CLI, k, v)
        return names, nproc, written

    for ctx, (names, nproc, written) in rep.explore(run, max_paths=40):
        rep.obligations += 1
        want = sorted((n.rsplit(".", 1)[0] + ".csv", "hv:pre:rec:" + n) for n in names)
        if sorted(written) == want:
            rep.discharged += 1
        else:
            rep.candidate({"kind": "cli-association", "files": names, "nproc": nproc}, f"files {names} with nproc={nproc}: outputs {sorted(written)} instead of {want}", key="output-under-wrong-name")
        rep.sample({"order": names, "nproc": nproc})


def run_dataflow(rep, tier):
    Ld = L()
    S = Ld["settings"]

    def run(ctx):
        pre, pro = S.HvsrPreProcessingSettings(), S.HvsrTraditionalProcessingSettings()
        got_pre, got_pro = worker_passes(Ld)(pre, pro)
        return pre, pro, got_pre, got_pro

    for ctx, (pre, pro, got_pre, got_pro) in rep.explore(run, max_paths=4):
        rep.obligations += 1
        if got_pre is None or got_pro is None:
            rep.inconclusive.append("worker did not call preprocess/process")
            continue
        rep.discharged += 1
        shared = (got_pre is pre, got_pro is pro)
        rep.notes.append(f"worker passes the chunk's own settings objects on: preprocessing={shared[0]}, processing={shared[1]}")
        rep.sample({"worker_passes_chunk_objects": {"preprocessing": shared[0], "processing": shared[1]}})


def make_settings(S, method, explicit_fft=False, filtered=False):
    fcs, bws = C01.CFG[4]
    kw = PP.settings_kwargs("linear_triangular", bws["linear_triangular"], fcs, width=0.3)
    if explicit_fft:
        kw["fft_settings"] = {"n": 4}
    pre = S.HvsrPreProcessingSettings(orient_to_degrees_from_north=None, filter_corner_frequencies_in_hz=[0.1, 0.4] if filtered else [None, None], window_length_in_seconds=None,
                                      detrend=None, ignore_dissimilar_time_step_warning=True)
    if method == "geometric_mean":
        return pre, S.HvsrTraditionalProcessingSettings(method_to_combine_horizontals=method, **kw)
    if method == "single_azimuth":
        return pre, S.HvsrTraditionalSingleAzimuthProcessingSettings(azimuth_in_degrees=30.0, **kw)
    if method == "azimuthal":
        return pre, S.HvsrAzimuthalProcessingSettings(azimuths_in_degrees=[0.0, 60.0], **kw)
    kw["handle_dissimilar_time_steps_by"] = "keeping_majority_time_step"
    return pre, S.HvsrDiffuseFieldProcessingSettings(**kw)


def cells(res):
    return [x for h in (res.hvsrs if hasattr(res, "hvsrs") else [res]) for x in np.atleast_1d(np.asarray(h.amplitude, dtype=object)).flat]


_FRESH = None


def fresh_library():
    """a second, freshly imported copy of the library modules: module-level state (caches, defaults) as in a new process"""
    global _FRESH
    _FRESH = loader.load(["cli", "processing", "preprocessing", "seismic_recording_3c", "settings", "object_io"], find_peaks=PP.no_peaks)
    loader.lower_fft_floor(_FRESH, 4)
    return _FRESH


def run_chunk(rep, tier, method, order, explicit_fft=False, dts=None, filtered=False):
    Ld = L()
    S, PR, P = Ld["settings"], Ld["preprocessing"], Ld["processing"]
    lens = (5, 3) if order == "long_then_short" else (3, 5)
    dta, dtb = dts if dts else (DT, DT)

    def run(ctx):
        sa, sb = PP.samples("fa", lens[0], ctx), PP.samples("fb", lens[1], ctx)
        passes = worker_passes(Ld)

        def worker(samples, n, dt, pre, pro, lib=Ld, passes=passes):
            p_pre, p_pro = passes(pre, pro)           # what the real worker would hand to the library for these chunk objects
            recs = lib["preprocessing"].preprocess([PP.mkrec(lib, ctx, "r", n, dt, comps=samples)], p_pre)
            return C01.process(lib["processing"], recs, p_pro)
        pre, pro = make_settings(S, method, explicit_fft, filtered)           # one pair of objects for the whole chunk
        worker(sa, lens[0], dta, pre, pro)
        second_in_chunk = worker(sb, lens[1], dtb, pre, pro)
        if filtered:
            F = fresh_library()
            pre2, pro2 = make_settings(F["settings"], method, explicit_fft, filtered)
            alone = worker(sb, lens[1], dtb, pre2, pro2, lib=F, passes=worker_passes(F))
        else:
            pre2, pro2 = make_settings(S, method, explicit_fft, filtered)         # freshly loaded settings, file alone
            alone = worker(sb, lens[1], dtb, pre2, pro2)
        return sa, sb, cells(second_in_chunk), cells(alone), pro.fft_settings, pro2.fft_settings

    for ctx, (sa, sb, a, b, f1, f2) in rep.explore(run, max_paths=200, timeout_ms=4000):
        def W(m):
            val = concretiser(m)
            return {"kind": "chunk", "method": method, "order": order, "explicit_fft": explicit_fft, "filtered": filtered, "file_a": {c: [val(v) for v in sa[c]] for c in sa}, "file_b": {c: [val(v) for v in sb[c]] for c in sb},
                    "fft_in_chunk": f1, "fft_alone": f2}
        bad = [z3.BoolVal(True)] if len(a) != len(b) else [Sym.lift(x) != Sym.lift(y) for x, y in zip(a, b)]
        rep.prove(ctx, f"{method}: the result for a file does not depend on the file handled before it in the same chunk ({order})", bad, witness=W,
                  key="output-depends-on-chunk-history", timeout_ms=20000)
        rep.sample({"method": method, "order": order, "fft_settings_in_chunk": f1, "fft_settings_alone": f2})


# ----------------------------------------------------------------------------- concrete side
def _write_saf(path, fs, n, seed):
    rng = np.random.default_rng(seed)
    x = (rng.normal(size=(n, 3)).cumsum(axis=0) * 50).astype(int)
    with open(path, "w") as f:
        f.write("SESAME ASCII data format (saf) v. 1\nSAMP_FREQ = %d\nNDAT = %d\nCH0_ID = V\nCH1_ID = N\nCH2_ID = E\nNORTH_ROT = 0\n####------------\n" % (fs, n))
        for row in x:
            f.write("%d %d %d\n" % tuple(row))


def replay(spec):
    if spec["kind"] == "crosshair":
        r = replay_counterexample(spec)
        r["key"] = "fft-length-leaks-within-chunk"
        return r
    import tempfile, os, shutil
    hvsrpy = real_hvsrpy()
    from hvsrpy import cli as CLI
    if spec["kind"] == "cli-association":
        written = []
        saved = {k: getattr(hvsrpy, k) for k in ("read", "preprocess", "process", "write_hvsr_object_to_file")}
        saved_cli = {k: getattr(CLI, k) for k in ("Pool", "read_settings_object_from_file")}
        hvsrpy.read = lambda fnames, **k: "rec:" + str(fnames[0][0])
        hvsrpy.preprocess = lambda recs, st: "pre:" + recs
        hvsrpy.process = lambda recs, st: "hv:" + recs
        hvsrpy.write_hvsr_object_to_file = lambda hv, out, **k: written.append((str(out), hv))
        CLI.Pool = FakePool
        CLI.read_settings_object_from_file = lambda f: hvsrpy.HvsrPreProcessingSettings() if "pre" in str(f) else hvsrpy.HvsrTraditionalProcessingSettings()
        import io, contextlib
        try:
            with contextlib.redirect_stdout(io.StringIO()):
                CLI.cli.main(args=list(spec["files"]) + ["--preprocessing_settings_file", "pre.json", "--processing_settings_file", "pro.json", "--no_figure", "--nproc", str(spec["nproc"])],
                             standalone_mode=False)
        finally:
            for k, v in saved.items():
                setattr(hvsrpy, k, v)
            for k, v in saved_cli.items():
                setattr(CLI, k, v)
        want = sorted((n.rsplit(".", 1)[0] + ".csv", "hv:pre:rec:" + n) for n in spec["files"])
        return {"reproduced": sorted(written) != want, "key": "output-under-wrong-name",
                "detail": f"hvsrpy {' '.join(spec['files'])} --nproc {spec['nproc']}: outputs {sorted(written)}, expected {want}"[:500]}
    d = tempfile.mkdtemp(prefix="c19_")
    cwd = os.getcwd()
    try:
        os.chdir(d)
        long_first = spec["order"] == "long_then_short"
        fa, fb = os.path.join(d, "file_a.saf"), os.path.join(d, "file_b.saf")
        # 660 s at 200 Hz / 100 Hz with 300 s windows: 60001 samples per window (n_fft 65536) vs 30001 (n_fft 32768)
        _write_saf(fa, 200 if long_first else 100, 132000 if long_first else 66000, 1)
        _write_saf(fb, 100 if long_first else 200, 66000 if long_first else 132000, 2)
        m = spec["method"]
        def settings():
            kw = dict(smoothing=dict(operator="konno_and_ohmachi", bandwidth=40, center_frequencies_in_hz=np.geomspace(0.5, 20, 8)))
            pre = hvsrpy.HvsrPreProcessingSettings(window_length_in_seconds=300.0, filter_corner_frequencies_in_hz=[None, None])
            if spec.get("explicit_fft"):
                kw["fft_settings"] = {"n": 32768}
            if m == "geometric_mean":
                pro = hvsrpy.HvsrTraditionalProcessingSettings(**kw)
            elif m == "single_azimuth":
                pro = hvsrpy.HvsrTraditionalSingleAzimuthProcessingSettings(azimuth_in_degrees=30.0, **kw)
            elif m == "azimuthal":
                pro = hvsrpy.HvsrAzimuthalProcessingSettings(azimuths_in_degrees=[0.0, 60.0], **kw)
            else:
                pro = hvsrpy.HvsrDiffuseFieldProcessingSettings(**kw)
            return pre, pro
        filtered = bool(spec.get("filtered"))
        script = (
            "import sys, os, io, contextlib, numpy as np\n"
            "sys.path.insert(0, %r)\n"
            "import hvsrpy\nfrom hvsrpy import cli as CLI\n"
            "m, explicit, filtered, files = %r, %r, %r, sys.argv[1:]\n"
            "kw = dict(smoothing=dict(operator='konno_and_ohmachi', bandwidth=40, center_frequencies_in_hz=np.geomspace(0.5, 20, 8)))\n"
            "pre = hvsrpy.HvsrPreProcessingSettings(window_length_in_seconds=300.0, filter_corner_frequencies_in_hz=[0.3, 15.0] if filtered else [None, None])\n"
            "if explicit: kw['fft_settings'] = {'n': 32768}\n"
            "pro = {'geometric_mean': lambda: hvsrpy.HvsrTraditionalProcessingSettings(**kw), 'single_azimuth': lambda: hvsrpy.HvsrTraditionalSingleAzimuthProcessingSettings(azimuth_in_degrees=30.0, **kw),"
            " 'azimuthal': lambda: hvsrpy.HvsrAzimuthalProcessingSettings(azimuths_in_degrees=[0.0, 60.0], **kw)}.get(m, lambda: hvsrpy.HvsrDiffuseFieldProcessingSettings(**kw))()\n"
            "opts = {'no_figure': True, 'no_file': False, 'distribution_mc': 'lognormal', 'distribution_fn': 'lognormal', 'ymax': 10}\n"
            "with contextlib.redirect_stdout(io.StringIO()):\n"
            "    for f in files:\n"
            "        CLI._process_hvsr(f, pre, pro, dict(opts))      # one chunk: the same objects for every file, as Pool.starmap delivers them\n"
            "print('FFT', pro.fft_settings)\n"
        ) % (os.environ.get("HVSRPY_REPO", "/repo"), m, bool(spec.get("explicit_fft")), filtered)
        import subprocess
        outs = {}
        for tag, files in (("chunk", [fa, fb]), ("alone", [fb])):          # each in its own interpreter: a worker that handled file_a first / never saw it
            wd = os.path.join(d, tag)
            os.makedirs(wd)
            r = subprocess.run([sys.executable, "-c", script] + files, cwd=wd, capture_output=True, text=True, timeout=900)
            if r.returncode != 0:
                return {"reproduced": False, "detail": f"worker process ({tag}) failed: {r.stderr[-300:]}"}
            outs[tag] = (np.loadtxt(os.path.join(wd, "file_b.csv"), delimiter=",", comments="#"), r.stdout.strip().splitlines()[-1])
        in_chunk, alone = outs["chunk"][0], outs["alone"][0]
        same = in_chunk.shape == alone.shape and np.array_equal(in_chunk, alone)
        if same:
            return {"reproduced": False, "detail": "file_b.csv identical whether or not file_a was handled before it by the same worker"}
        return {"reproduced": True, "key": "output-depends-on-chunk-history",
                "detail": f"{m}: file_b.csv written by a worker that handled file_a ({'200' if long_first else '100'} Hz) first differs from the one written by a worker that never saw it"
                          f" ({outs['chunk'][1]} vs {outs['alone'][1]}; filter requested: {filtered}); max |diff| = {np.max(np.abs(in_chunk - alone)) if in_chunk.shape == alone.shape else 'shape'}"}
    finally:
        os.chdir(cwd)
        shutil.rmtree(d, ignore_errors=True)


def validate(spec):
    return {"ok": True, "skipped": True}
