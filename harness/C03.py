"""C03 - one curve per window, in input order, independent of the other windows.

(a) CrossHair on the real prepare_records_with_inconsistent_dt: the two 'keeping' policies retain exactly the
    records with the smallest / a most frequent time step in original order, the resampling policy keeps all;
(b-d) SYMX end to end: for lists of records whose time-step pattern is a solver-forked choice, every policy and
    four processing methods, process() returns one row per processed record at exactly the requested centre
    frequencies, row i equals (as a term) the row obtained by processing record i alone with the same FFT length,
    also after permuting the list, and every cell is >= 0;
(e) centre frequencies above the Nyquist frequency of a processed record raise ValueError, and only then.
"""
import itertools

import numpy as np
import z3

from symx import loader
from symx.core import Sym, Ctx, symarray, qval, is_nan, OutsideClaim
from symx.report import fl, concretiser
from symx.xh import crosshair_obligation, replay_counterexample, real_hvsrpy
from harness import pipeline as PP
from harness import C01

FUNCTIONS_Q = ["processing.prepare_records_with_inconsistent_dt", "processing.check_nyquist_frequency", "processing.prepare_fft_settings",
               "processing.traditional_hvsr_processing", "processing.traditional_single_azimuth_hvsr_processing",
               "processing.traditional_rotdpp_hvsr_processing", "processing.azimuthal_hvsr_processing", "hvsr_curve.HvsrCurve._check_input"]
STUBS = C01.STUBS + ["CrossHair contracts use stub records (objects with ns.dt_in_seconds / vt.n_samples) - the policy code itself is the real function",
                      "np.argsort (default / unstable kind, concrete keys with ties) -> contract-allowed order with every run of equal keys reversed; replays also run the witness pattern repeated 16 times"]
ASSUMPTIONS = ["floats as reals", "FFT length fixed through fft_settings={'n': N} for the alone/together comparison (as the property states)"]
OUTSIDE = ["finite-ness when the smoothed vertical spectrum is exactly zero (degenerate division paths are listed, not claimed)", "more than 3 records (SYMX) / 4 records (CrossHair) - except that a witness is also replayed as a 48-64 record list"]
BOUNDS = {"quick": {"records": "2-3 (SYMX), 4 (CrossHair)", "time_steps": 2, "samples": 3, "n_fft": 4, "methods": 4, "policies": 3},
          "thorough": {"records": "2-3 (SYMX), 4 (CrossHair)", "time_steps": "2-3", "samples": 3, "n_fft": 4, "methods": 4, "policies": 3}}
INSTANCE_TIMEOUT = {"quick": 230, "thorough": 700}
POLICIES = ["frequency_domain_resampling", "keeping_smallest_time_step", "keeping_majority_time_step"]
METHODS = ["arithmetic_mean", "single_azimuth", "rotdpp", "azimuthal"]
DTS = [0.5, 0.25, 0.125]
FCS = [0.5, 1.0]
NFFT = 4
OP, BW = "linear_triangular", 1.5


def LD():
    return PP.PL(floor=NFFT, key="exact")


def functions_encoded():
    return LD().functions_encoded(FUNCTIONS_Q)


def instances(tier):
    out = []
    for f, twin in (("keep_smallest4", "keep_smallest4_reach"), ("keep_majority4", "keep_majority4_reach"), ("resampling_keeps_all3", None)):
        out.append({"name": f"crosshair_{f}", "func": "run_crosshair", "kwargs": {"func": f, "twin": twin}, "timeout": 400})
    nrecs = [2, 3]
    for method in METHODS:
        for policy in POLICIES:
            for nrec in nrecs:
                if tier == "quick" and nrec == 3 and method in ("rotdpp", "azimuthal"):
                    continue
                out.append({"name": f"rows_{method}_{policy}_r{nrec}", "func": "run_rows", "kwargs": {"method": method, "policy": policy, "nrec": nrec,
                                                                                                 "ndt": 2 if tier == "quick" else (3 if nrec == 3 and method == "arithmetic_mean" else 2)}})
    # four records: the smallest size at which the regrouping-by-time-step permutation is not an involution
    for method in (("arithmetic_mean", "single_azimuth") if tier == "quick" else ("arithmetic_mean", "single_azimuth", "rotdpp")):
        out.append({"name": f"rows_{method}_frequency_domain_resampling_r4", "func": "run_rows",
                    "kwargs": {"method": method, "policy": "frequency_domain_resampling", "nrec": 4, "ndt": 2, "check_perm": False}})
    for method in METHODS:
        out.append({"name": f"nyquist_{method}", "func": "run_nyquist", "kwargs": {"method": method}})
    return out


def run_crosshair(rep, tier, func, twin):
    crosshair_obligation(rep, "xhair/C03_dt.py", func, twin=twin, timeout_s=40 if tier == "quick" else 120, key=f"dt-policy:{func}")


def make_settings(S, method, policy, nfft_fixed=True, fcs=FCS):
    kw = PP.settings_kwargs(OP, BW, fcs, width=0.3, policy=policy)
    if nfft_fixed:
        kw["fft_settings"] = {"n": NFFT}
    if method == "arithmetic_mean":
        return S.HvsrTraditionalProcessingSettings(method_to_combine_horizontals=method, **kw)
    if method == "single_azimuth":
        return S.HvsrTraditionalSingleAzimuthProcessingSettings(azimuth_in_degrees=30.0, **kw)
    if method == "rotdpp":
        return S.HvsrTraditionalRotDppProcessingSettings(azimuths_in_degrees=[0.0, 60.0], ppth_percentile_for_rotdpp_computation=50.0, **kw)
    if method == "azimuthal":
        return S.HvsrAzimuthalProcessingSettings(azimuths_in_degrees=[0.0, 60.0], **kw)
    raise KeyError(method)


def rows_of(res):
    if hasattr(res, "hvsrs"):
        return [np.concatenate([np.asarray(h.amplitude, dtype=object)[i] for h in res.hvsrs]) for i in range(len(res.hvsrs[0].amplitude))]
    return [row for row in np.asarray(res.amplitude, dtype=object)]


def freq_of(res):
    return list(map(float, res.hvsrs[0].frequency if hasattr(res, "hvsrs") else res.frequency))


def expected_kept(dts, policy):
    if policy == "frequency_domain_resampling":
        return [list(range(len(dts)))]
    if policy == "keeping_smallest_time_step":
        m = min(dts)
        return [[i for i, d in enumerate(dts) if d == m]]
    counts = {d: dts.count(d) for d in dts}
    mx = max(counts.values())
    return [[i for i, d in enumerate(dts) if d == dd] for dd in counts if counts[dd] == mx]     # any most frequent one


def run_rows(rep, tier, method, policy, nrec, ndt, check_perm=True):
    Ld = LD()
    P, S = Ld["processing"], Ld["settings"]
    L = 3

    def run(ctx):
        dts = [DTS[ctx.choose(ndt, tag=f"dt{i}")] for i in range(nrec)]
        ss = [PP.samples(f"r{i}", L, ctx) for i in range(nrec)]
        mk = lambda i: PP.mkrec(Ld, ctx, f"r{i}", L, dts[i], comps=ss[i])
        joint = C01.process(P, [mk(i) for i in range(nrec)], make_settings(S, method, policy))
        perm = list(range(1, nrec)) + [0]
        jperm = C01.process(P, [mk(i) for i in perm], make_settings(S, method, policy)) if check_perm else joint
        alone = []
        for i in range(nrec):
            try:
                alone.append(rows_of(C01.process(P, [mk(i)], make_settings(S, method, policy)))[0])
            except OutsideClaim:
                raise
        return dts, ss, joint, jperm, perm, alone

    for ctx, (dts, ss, joint, jperm, perm, alone) in rep.explore(run, max_paths=1500 if tier == "quick" else 6000, timeout_ms=6000):
        W = C01.witness_fn("rows", ss, {"method": method, "policy": policy, "dts": dts, "nfft": NFFT})
        keeps = expected_kept(dts, policy)
        jr = rows_of(joint)
        ok_shape = any(len(jr) == len(k) for k in keeps) and freq_of(joint) == FCS and all(len(r) == len(FCS) * (2 if method == "azimuthal" else 1) for r in jr)
        rep.obligations += 1
        if ok_shape:
            rep.discharged += 1
        else:
            r, m = ctx.model()
            if r == z3.sat:
                rep.candidate(W(m), f"{method}/{policy}: {len(jr)} curves for time steps {dts} (expected {[len(k) for k in keeps]}), frequencies {freq_of(joint)}", key="curve-count-or-frequencies")
            continue
        # row identity: joint row r == alone row of the r-th retained record, for a policy-admissible retained set
        alts = []
        for kept in keeps:
            if len(kept) != len(jr):
                continue
            alts.append(z3.And([Sym.lift(a) == Sym.lift(b) for r_, i in enumerate(kept) for a, b in zip(jr[r_], alone[i])]))
        rep.prove(ctx, f"{method}/{policy}: each curve equals the curve of that recording processed alone (same FFT length), in input order",
                  z3.Not(z3.Or(alts)) if alts else z3.BoolVal(True), witness=W, key=f"row-independence:{method}", real=True)
        if not check_perm:
            rep.sample({"method": method, "policy": policy, "dts": dts, "curves": len(jr)})
            continue
        # permutation: the list rotated by one gives the same rows, rotated accordingly
        pr = rows_of(jperm)
        dts_p = [dts[i] for i in perm]
        keeps_p = expected_kept(dts_p, policy)
        alts = []
        for kept in keeps_p:
            if len(kept) != len(pr):
                continue
            alts.append(z3.And([Sym.lift(a) == Sym.lift(b) for r_, i in enumerate(kept) for a, b in zip(pr[r_], alone[perm[i]])]))
        rep.prove(ctx, f"{method}/{policy}: processing the list in another order gives the same curve for each recording",
                  z3.Not(z3.Or(alts)) if alts else z3.BoolVal(True), witness=W, key=f"order-dependence:{method}", real=True)
        neg = [Sym.lift(x) < 0 for row in jr for x in row]
        rep.prove(ctx, f"{method}/{policy}: amplitudes are non-negative", neg, witness=W, key="negative-amplitude")
        rep.sample({"method": method, "policy": policy, "dts": dts, "curves": len(jr)})


def run_nyquist(rep, tier, method):
    Ld = LD()
    P, S = Ld["processing"], Ld["settings"]
    L = 3

    def run(ctx):
        dts = [DTS[ctx.choose(2, tag=f"dt{i}")] for i in range(2)]
        ss = [PP.samples(f"r{i}", L, ctx) for i in range(2)]
        fc = Sym.var("fc", ctx, lo=0.01)
        recs = [PP.mkrec(Ld, ctx, f"r{i}", L, dts[i], comps=ss[i]) for i in range(2)]
        st = make_settings(S, method, "frequency_domain_resampling", fcs=[0.5, fc])
        real_ops = dict(Ld["smoothing"].SMOOTHING_OPERATORS)

        class Reached(Exception):
            pass

        def stop(*a, **k):
            raise Reached()
        # everything after the guard is irrelevant here: stop at the first smoothing call
        Ld["smoothing"].SMOOTHING_OPERATORS[OP] = stop
        Ld["processing"].SMOOTHING_OPERATORS[OP] = stop
        try:
            try:
                P.process(recs, st)
                outcome = "returned"
            except Reached:
                outcome = "passed-guard"
            except ValueError as e:
                outcome = "ValueError"
        finally:
            Ld["smoothing"].SMOOTHING_OPERATORS.update(real_ops)
            Ld["processing"].SMOOTHING_OPERATORS.update(real_ops)
        return dts, fc, outcome

    for ctx, (dts, fc, outcome) in rep.explore(run, max_paths=100):
        fnyq = 1 / (2 * max(dts))
        above = z3.Or(fc.e > qval(fnyq), qval(0.5) > qval(fnyq))
        W = lambda m: {"kind": "nyquist", "method": method, "dts": dts, "fc": concretiser(m)(fc)}
        if outcome == "ValueError":
            rep.prove(ctx, f"{method}: ValueError only when a centre frequency exceeds the Nyquist frequency of a processed record", z3.Not(above), witness=W, key="nyquist-spurious-error")
        else:
            rep.prove(ctx, f"{method}: centre frequencies above Nyquist are refused", above, witness=W, key="nyquist-not-refused")


# ----------------------------------------------------------------------------- concrete side
def _st(hvsrpy, method, policy, fcs=FCS, fixed=True):
    kw = dict(window_type_and_width=["tukey", 0.3], smoothing=dict(operator=OP, bandwidth=BW, center_frequencies_in_hz=list(fcs)),
              handle_dissimilar_time_steps_by=policy, fft_settings={"n": NFFT} if fixed else None)
    if method == "arithmetic_mean":
        return hvsrpy.HvsrTraditionalProcessingSettings(method_to_combine_horizontals=method, **kw)
    if method == "single_azimuth":
        return hvsrpy.HvsrTraditionalSingleAzimuthProcessingSettings(azimuth_in_degrees=30.0, **kw)
    if method == "rotdpp":
        return hvsrpy.HvsrTraditionalRotDppProcessingSettings(azimuths_in_degrees=[0.0, 60.0], ppth_percentile_for_rotdpp_computation=50.0, **kw)
    return hvsrpy.HvsrAzimuthalProcessingSettings(azimuths_in_degrees=[0.0, 60.0], **kw)


def _rows(res):
    if hasattr(res, "hvsrs"):
        return np.array([np.concatenate([h.amplitude[i] for h in res.hvsrs]) for i in range(len(res.hvsrs[0].amplitude))])
    return np.atleast_2d(res.amplitude)


def replay(spec):
    if spec["kind"] == "crosshair":
        r = replay_counterexample(spec)
        r["key"] = f"dt-policy:{spec['func']}"
        return r
    import warnings
    warnings.simplefilter("ignore")
    real_hvsrpy()
    hvsrpy, P, T, saved = C01._patched(spec | {"nfft": NFFT})
    try:
        if spec["kind"] == "nyquist":
            recs = [hvsrpy.SeismicRecording3C(*[hvsrpy.TimeSeries(np.array([1.0, 2.0, 0.5]), dt) for _ in range(3)]) for dt in spec["dts"]]
            fnyq = 1 / (2 * max(spec["dts"]))
            try:
                hvsrpy.process(recs, _st(hvsrpy, spec["method"], "frequency_domain_resampling", fcs=[0.5, spec["fc"]]))
                raised = False
            except ValueError:
                raised = True
            should = spec["fc"] > fnyq or 0.5 > fnyq
            if raised != should:
                return {"reproduced": True, "key": "nyquist-not-refused" if should else "nyquist-spurious-error", "detail": f"fc={spec['fc']} dts={spec['dts']} nyquist={fnyq}: raised={raised}"}
            return {"reproduced": False, "detail": "guard behaves as specified"}
        def attempt(dts, records):
            mk = lambda i: hvsrpy.SeismicRecording3C(*[hvsrpy.TimeSeries(np.array(records[i][c], dtype=float), dts[i]) for c in ("ns", "ew", "vt")])   # noqa
            n = len(dts)
            joint = _rows(hvsrpy.process([mk(i) for i in range(n)], _st(hvsrpy, spec["method"], spec["policy"])))
            alone = [_rows(hvsrpy.process([mk(i)], _st(hvsrpy, spec["method"], spec["policy"])))[0] for i in range(n)]
            perm = list(range(1, n)) + [0]
            jperm = _rows(hvsrpy.process([mk(i) for i in perm], _st(hvsrpy, spec["method"], spec["policy"])))
            keeps = expected_kept(dts, spec["policy"])
            if not any(len(k) == len(joint) for k in keeps):
                return {"reproduced": True, "key": "curve-count-or-frequencies", "detail": f"{len(joint)} curves for dts {dts} under {spec['policy']}"[:300]}
            close = lambda a, b: np.allclose(a, b, rtol=1e-9, atol=1e-12, equal_nan=True)   # noqa
            if not any(len(k) == len(joint) and all(close(joint[r], alone[i]) for r, i in enumerate(k)) for k in keeps):
                bad = [r for r, i in enumerate(keeps[0]) if len(keeps[0]) == len(joint) and not close(joint[r], alone[i])]
                return {"reproduced": True, "key": f"row-independence:{spec['method']}", "detail": f"{spec['method']}/{spec['policy']} {n} records, dts={dts[:8]}{'...' if n > 8 else ''}: rows {bad[:6]} are not the curves of the records they stand for; joint {joint[:4].tolist()} vs alone {[a.tolist() for a in alone[:4]]}"[:500]}
            keeps_p = expected_kept([dts[i] for i in perm], spec["policy"])
            if not any(len(k) == len(jperm) and all(close(jperm[r], alone[perm[i]]) for r, i in enumerate(k)) for k in keeps_p):
                return {"reproduced": True, "key": f"order-dependence:{spec['method']}", "detail": f"rotated list gives {jperm[:4].tolist()} vs alone {[a.tolist() for a in alone[:4]]}"[:400]}
            if (joint < 0).any():
                return {"reproduced": True, "key": "negative-amplitude", "detail": str(joint.tolist())[:300]}
            return {"reproduced": False, "detail": "rows agree"}
        res = attempt(spec["dts"], spec["records"])
        if not res["reproduced"] and len(set(spec["dts"])) > 1:
            # the same recordings as a longer list (each record listed 16 times, in the witness pattern): library routines whose
            # behaviour on equal keys is unspecified (np.argsort with the default kind) act as in the solver's model only on long inputs
            res = attempt(list(spec["dts"]) * 16, list(spec["records"]) * 16)
            if res["reproduced"]:
                res["detail"] = "(witness pattern repeated 16 times) " + res["detail"]
        return res
    finally:
        C01._restore(P, T, saved)


def validate(spec):
    return {"ok": True, "skipped": True}
