"""C11 - azimuthal statistics give every azimuth equal weight (Cheng et al. 2020).

State-based like C05: an HvsrAzimuthal object is put into an arbitrary valid state (per azimuth: symbolic
curves, symbolic peaks, solver-forked accept/reject status with at least one accepted window per azimuth);
every statistic accessor of the real source (numpy's own np.cov(aweights=) included) runs on it and the
returned term must equal the weighted estimator written here with w = 1/(n_az * n_accepted(az)).
"""
import itertools

import numpy as np
import z3
from harness import pipeline as PP

from symx import loader
from symx.core import Sym, Ctx, symarray, qval, is_nan, free_vars
from symx.report import fl, concretiser, shaped_model
from harness.C05 import xform, canon, term_in_space, sqrt_arg, call

FUNCTIONS_Q = ["hvsr_azimuthal.HvsrAzimuthal._compute_statistical_weights", "hvsr_azimuthal.HvsrAzimuthal.mean_fn_frequency",
               "hvsr_azimuthal.HvsrAzimuthal.mean_fn_amplitude", "hvsr_azimuthal.HvsrAzimuthal.std_fn_frequency",
               "hvsr_azimuthal.HvsrAzimuthal.std_fn_amplitude", "hvsr_azimuthal.HvsrAzimuthal.cov_fn",
               "hvsr_azimuthal.HvsrAzimuthal.mean_curve", "hvsr_azimuthal.HvsrAzimuthal.std_curve",
               "hvsr_azimuthal.HvsrAzimuthal.nth_std_fn_frequency", "hvsr_azimuthal.HvsrAzimuthal.nth_std_curve",
               "hvsr_azimuthal.HvsrAzimuthal.mean_curve_by_azimuth",
               "statistics._nanmean_weighted", "statistics._nanstd_weighted", "statistics._nth_std_factory"]
STUBS = ["exp/log: positive inputs are exp(u), log(exp u) = u; sqrt uninterpreted (argument equality decided)",
         "np.cov(aweights=) is numpy's own code running on the symbolic arrays"]
ASSUMPTIONS = ["floats read as reals; concrete float constants computed inside the code (1/(n_az*n), 1-sum(w^2)) are read as the simple rational they round",
               "accepted windows have a peak (a window whose peak is NaN is masked out)", "at least one accepted window per azimuth"]
OUTSIDE = ["more azimuths/windows than the bound", "rounding"]
BOUNDS = {"quick": {"azimuths": "1-2", "windows_per_azimuth": "2-3", "frequencies": 2},
          "thorough": {"azimuths": "1-3", "windows_per_azimuth": "2-3", "frequencies": 3}}
INSTANCE_TIMEOUT = {"quick": 230, "thorough": 700}
DISTS = ["normal", "lognormal", "log-normal"]
_L = None


def L():
    global _L
    if _L is None:
        _L = loader.load(["hvsr_curve", "hvsr_traditional", "hvsr_azimuthal", "statistics"])
    return _L


def functions_encoded():
    return L().functions_encoded(FUNCTIONS_Q)


def instances(tier):
    out = []
    shapes = [(1, 3), (2, 2), (2, 3)] if tier == "quick" else [(1, 3), (2, 2), (2, 3), (3, 2), (3, 3)]
    nf = 2 if tier == "quick" else 3
    for naz, w in shapes:
        for dist in DISTS:
            if tier == "quick" and (naz, w) == (2, 3) and dist == "log-normal":
                continue
            out.append({"name": f"state_az{naz}_w{w}_{dist}", "func": "run_state", "kwargs": {"naz": naz, "w": w, "nf": nf, "dist": dist}})
    # azimuth values that coincide modulo 180 (both end points 0 and 180 are accepted by the class) or are repeated
    for azs in ([0.0, 180.0], [45.0, 45.0], [0.0, 60.0, 180.0]):
        if tier == "quick" and len(azs) == 3:
            continue
        out.append({"name": f"state_azimuths_{'_'.join(str(int(a)) for a in azs)}", "func": "run_state", "kwargs": {"naz": len(azs), "w": 2, "nf": 2, "dist": "lognormal", "azimuths": azs}})
    # the covariance alone, on azimuths with different numbers of accepted windows (its off-diagonal is the only statistic
    # that mixes frequency and amplitude: it must carry the same weights)
    for dist in ("normal", "lognormal"):
        out.append({"name": f"cov_unequal_counts_{dist}", "func": "run_cov_only", "kwargs": {"dist": dist}})
    # the same live object queried, its accept masks changed (possibly to the same counts), queried again
    for dist in ("normal", "lognormal"):
        out.append({"name": f"requery_after_mask_change_{dist}", "func": "run_requery", "kwargs": {"dist": dist}})
    for dist in ("normal", "lognormal"):
        out.append({"name": f"perm_{dist}", "func": "run_perm", "kwargs": {"dist": dist}})
        out.append({"name": f"single_azimuth_{dist}", "func": "run_single", "kwargs": {"dist": dist}})
    return out


def make_state(ctx, naz, w, nf, tag="", azimuths=None, fixed_status=None):
    HT = L()["hvsr_traditional"].HvsrTraditional
    HA = L()["hvsr_azimuthal"].HvsrAzimuthal
    frq = np.arange(1.0, nf + 1)
    hs, status = [], []
    for k in range(naz):
        h = PP.shell_traditional(HT)
        h.frequency, h.n_curves, h.meta = frq, w, {}
        h.amplitude = symarray(f"a{tag}{k}", (w, nf), ctx, pos="exp")
        h._main_peak_frq = np.empty(w, dtype=object)
        h._main_peak_amp = np.empty(w, dtype=object)
        h.valid_window_boolean_mask = np.ones(w, dtype=bool)
        h.valid_peak_boolean_mask = np.ones(w, dtype=bool)
        h._search_range_in_hz, h._find_peaks_kwargs = (None, None), {}
        st = []
        for i in range(w):
            s = ["accepted", "rejected", "nopeak"][ctx.choose(3, tag=f"st{k}_{i}")] if fixed_status is None else fixed_status[k][i]
            st.append(s)
            if s == "nopeak":
                h._main_peak_frq[i] = h._main_peak_amp[i] = float("nan")
            else:
                h._main_peak_frq[i] = Sym.posvar(f"pf{tag}{k}_{i}", ctx)
                h._main_peak_amp[i] = Sym.posvar(f"pa{tag}{k}_{i}", ctx)
            h.valid_window_boolean_mask[i] = h.valid_peak_boolean_mask[i] = (s == "accepted")
        hs.append(h)
        status.append(st)
    az = PP.shell_azimuthal(HA, HT)
    az.hvsrs, az.azimuths, az.meta = hs, (list(azimuths) if azimuths is not None else [float(10 * k) for k in range(naz)]), {}
    return az, status


def wit(az, status, dist, what, prior=None):
    def w(m):
        val = concretiser(m)
        return {"kind": "azstate", "dist": dist, "what": what, "status": status, "prior_status": prior, "azimuths": [float(a) for a in az.azimuths],
                "frequency": [float(f) for f in az.frequency],
                "amplitude": [[[val(x) for x in row] for row in h.amplitude] for h in az.hvsrs],
                "peak_frq": [[val(x) for x in h._main_peak_frq] for h in az.hvsrs],
                "peak_amp": [[val(x) for x in h._main_peak_amp] for h in az.hvsrs]}
    return w


def wsum(ws, xs):
    t = xs[0] * ws[0]
    for w, x in zip(ws[1:], xs[1:]):
        t = t + x * w
    return t


def spec_stats(az, status, dist):
    """weighted estimators with w = 1/(n_az*n_acc(az)) in the estimator's space (terms)."""
    naz = len(az.hvsrs)
    ws, f, a, cols = [], [], [], None
    nf = az.hvsrs[0].amplitude.shape[1]
    cols = [[] for _ in range(nf)]
    per_az_mean_f = []
    for h, st in zip(az.hvsrs, status):
        acc = [i for i, s in enumerate(st) if s == "accepted"]
        from fractions import Fraction
        wk = Fraction(1, naz * len(acc))
        xs = [xform(h._main_peak_frq[i], dist) for i in acc]
        per_az_mean_f.append(sum(xs[1:], xs[0]) / len(xs))
        for i in acc:
            ws.append(wk)
            f.append(xform(h._main_peak_frq[i], dist))
            a.append(xform(h._main_peak_amp[i], dist))
            for j in range(nf):
                cols[j].append(xform(h.amplitude[i, j], dist))
    norm = 1 - sum(w * w for w in ws)
    out = {"weights": ws, "norm": norm}

    def mean(xs):
        return wsum(ws, xs)

    def cov(xs, ys):
        mx, my = mean(xs), mean(ys)
        d = [(x - mx) * (y - my) for x, y in zip(xs, ys)]
        return wsum(ws, d) / norm
    out["mean_f"], out["mean_a"] = mean(f), mean(a)
    out["avg_of_az_means_f"] = sum(per_az_mean_f[1:], per_az_mean_f[0]) / naz
    out["var_f"], out["var_a"], out["cov_fa"] = cov(f, f), cov(a, a), cov(f, a)
    out["mean_curve"] = [mean(c) for c in cols]
    out["var_curve"] = [cov(c, c) for c in cols]
    return out


def check(rep, ctx, az, status, dist, label="", prior=None):
    W = lambda what: wit(az, status, dist, what, prior)
    sp = spec_stats(az, status, dist)
    res = {}
    used = set()
    rej = set()
    for h, st in zip(az.hvsrs, status):
        for i, s in enumerate(st):
            if s != "accepted":
                for x in list(h.amplitude[i]) + [h._main_peak_frq[i], h._main_peak_amp[i]]:
                    if isinstance(x, Sym):
                        rej |= free_vars(x.e) | (free_vars(x.lg) if x.lg is not None else set())

    def track(x):
        if isinstance(x, Sym):
            used.update(free_vars(x.e))
        elif isinstance(x, np.ndarray):
            for v in x.flat:
                track(v)
        return x
    # weights
    ok, w = call(rep, ctx, "weights", az._compute_statistical_weights, W("weights"))
    if ok:
        rep.obligations += 1
        good = len(w) == len(sp["weights"]) and all(abs(float(a) - float(b)) < 1e-12 for a, b in zip(w, sp["weights"])) and abs(sum(w) - 1) < 1e-12
        if good:
            rep.discharged += 1
        else:
            rep.candidate(W("weights")(ctx.model()[1]), f"weights {list(w)} are not 1/(n_az*n_accepted): {sp['weights']}", key="weights")
    for nm, mkey, vkey, mean_f, std_f, nth_f in (("frequency", "mean_f", "var_f", az.mean_fn_frequency, az.std_fn_frequency, az.nth_std_fn_frequency),
                                                 ("amplitude", "mean_a", "var_a", az.mean_fn_amplitude, az.std_fn_amplitude, az.nth_std_fn_amplitude)):
        ok, mean = call(rep, ctx, f"mean_fn_{nm}", lambda: mean_f(dist), W(f"mean_fn_{nm}"))
        if ok:
            track(mean)
            res[f"mean_fn_{nm}"] = mean
            rep.prove(ctx, f"{label}mean_fn_{nm}({dist}) is the equal-azimuth-weight (log-)mean", Sym.lift(term_in_space(mean, dist)) != sp[mkey].e,
                      witness=W(f"mean_fn_{nm}"), key=f"mean-{dist}")
            if nm == "frequency":
                rep.prove(ctx, f"{label}mean_fn_frequency({dist}) is the plain average over azimuths of the per-azimuth means",
                          Sym.lift(term_in_space(mean, dist)) != sp["avg_of_az_means_f"].e, witness=W("mean_fn_frequency"), key=f"mean-{dist}")
        ok2, std = call(rep, ctx, f"std_fn_{nm}", lambda: std_f(dist), W(f"std_fn_{nm}"))
        if ok2:
            track(std)
            res[f"std_fn_{nm}"] = std
            arg = sqrt_arg(std)
            rep.prove(ctx, f"{label}std_fn_{nm}({dist})^2 * (1 - sum w^2) = sum w (x - mean)^2",
                      z3.BoolVal(True) if arg is None else arg != sp[vkey].e, witness=W(f"std_fn_{nm}"), key=f"std-{dist}")
        if ok and ok2:
            ok3, nth = call(rep, ctx, f"nth_std_fn_{nm}", lambda: nth_f(-1, dist), W(f"nth_std_fn_{nm}"))
            if ok3:
                track(nth)
                rep.prove(ctx, f"{label}nth_std_fn_{nm}(-1,{dist}) = mean - std in the estimator's space",
                          Sym.lift(term_in_space(nth, dist)) != Sym.lift(term_in_space(mean, dist) - std), witness=W(f"nth_std_fn_{nm}"), key=f"nth-{dist}")
    ok, cov = call(rep, ctx, "cov_fn", lambda: az.cov_fn(dist), W("cov_fn"))
    if ok:
        track(cov)
        want = [[sp["var_f"], sp["cov_fa"]], [sp["cov_fa"], sp["var_a"]]]
        bad = [Sym.lift(cov[r, c]) != want[r][c].e for r in range(2) for c in range(2)]
        rep.prove(ctx, f"{label}cov_fn({dist}) uses the same weights and 1 - sum w^2 normalisation", bad, witness=W("cov_fn"), key=f"cov-{dist}")
        if "std_fn_frequency" in res and sqrt_arg(res["std_fn_frequency"]) is not None:
            rep.prove(ctx, f"{label}cov_fn diagonal equals the squared standard deviations",
                      [Sym.lift(cov[0, 0]) != sqrt_arg(res["std_fn_frequency"]), Sym.lift(cov[1, 1]) != sqrt_arg(res["std_fn_amplitude"])],
                      witness=W("cov_fn"), key=f"cov-diag-{dist}")
    ok, mc = call(rep, ctx, "mean_curve", lambda: az.mean_curve(dist), W("mean_curve"))
    if ok:
        track(mc)
        res["mean_curve"] = mc
        rep.prove(ctx, f"{label}mean_curve({dist}) column-wise weighted (log-)mean",
                  [Sym.lift(term_in_space(mc[j], dist)) != sp["mean_curve"][j].e for j in range(len(mc))], witness=W("mean_curve"), key=f"meancurve-{dist}")
    ok2, sc = call(rep, ctx, "std_curve", lambda: az.std_curve(dist), W("std_curve"))
    if ok2:
        track(sc)
        bad = []
        for j in range(len(sc)):
            arg = sqrt_arg(sc[j])
            bad.append(z3.BoolVal(True) if arg is None else arg != sp["var_curve"][j].e)
        rep.prove(ctx, f"{label}std_curve({dist})^2 column-wise weighted variance with 1 - sum w^2", bad, witness=W("std_curve"), key=f"stdcurve-{dist}")
    rep.obligations += 1
    leak = used & rej
    if leak:
        rep.candidate(W("frame")(ctx.model()[1]), f"symbols of rejected windows occur in a statistic: {sorted(leak)[:4]}", key="rejected-window-leaks")
    else:
        rep.discharged += 1
    return res


def run_state(rep, tier, naz, w, nf, dist, azimuths=None):
    def run(ctx):
        return make_state(ctx, naz, w, nf, azimuths=azimuths)

    for ctx, (az, status) in rep.explore(run, max_paths=1000):
        if any(sum(1 for s in st if s == "accepted") < 1 for st in status):
            continue
        if sum(sum(1 for s in st if s == "accepted") for st in status) < 2:
            continue
        rep.reachable(ctx)
        res = check(rep, ctx, az, status, dist)
        r, m = shaped_model(ctx)          # moderate log-amplitudes: the concrete side must not overflow
        if r == z3.sat and len(rep.validations) < 6:
            spec = wit(az, status, dist, "validate")(m)
            val = concretiser(m)
            spec["expect"] = {k: ([val(x) for x in v] if isinstance(v, np.ndarray) else val(v)) for k, v in res.items()}
            spec["instance"] = rep.name
            rep.validation(spec)
            rep.sample({"status": status, "dist": dist})


STAT_CALLS = ("mean_fn_frequency", "std_fn_frequency", "mean_fn_amplitude", "std_fn_amplitude", "cov_fn", "mean_curve", "std_curve")


def run_cov_only(rep, tier, dist):
    fixed = [["accepted", "accepted", "accepted"], ["accepted", "rejected", "rejected"]]

    def run(ctx):
        return make_state(ctx, 2, 3, 2, fixed_status=fixed)

    for ctx, (az, status) in rep.explore(run, max_paths=20):
        rep.reachable(ctx)
        W = wit(az, status, dist, "cov_fn")
        sp = spec_stats(az, status, dist)
        ok, cov = call(rep, ctx, "cov_fn", lambda: az.cov_fn(dist), W)
        if not ok:
            continue
        shape = [z3.And(z3.Real(n) >= qval(-1) + qval(0.25) * ((j * 5) % 8), z3.Real(n) <= qval(-0.9) + qval(0.25) * ((j * 5) % 8)) for j, n in enumerate(sorted(free_vars(z3.And(*ctx.constraints()))) ) if n.startswith("ln_")]
        rep.prove(ctx, f"cov_fn({dist}) off-diagonal = sum w (f - mean_f)(a - mean_a) / (1 - sum w^2) with the equal-azimuth weights (3 and 1 accepted windows)",
                  [Sym.lift(cov[0, 1]) != sp["cov_fa"].e, Sym.lift(cov[1, 0]) != sp["cov_fa"].e], witness=W, key=f"cov-{dist}", shape=shape, timeout_ms=30000)
        rep.sample({"status": status, "dist": dist})


def run_requery(rep, tier, dist):
    def run(ctx):
        az, status = make_state(ctx, 2, 2, 2)
        for nm in STAT_CALLS:                      # first use of the object
            try:
                getattr(az, nm)(dist)
            except (ValueError, ZeroDivisionError, IndexError):
                pass
        status2 = []
        for k, (h, st) in enumerate(zip(az.hvsrs, status)):
            st2 = []
            for i, s0 in enumerate(st):
                s1 = s0 if s0 == "nopeak" else ["accepted", "rejected"][ctx.choose(2, tag=f"re{k}_{i}")]
                st2.append(s1)
                h.valid_window_boolean_mask[i] = h.valid_peak_boolean_mask[i] = (s1 == "accepted")
            status2.append(st2)
        return az, status, status2

    for ctx, (az, status, status2) in rep.explore(run, max_paths=1500 if tier == "quick" else 6000):
        if status2 == status or any(sum(1 for s in st if s == "accepted") < 1 for st in status2) or sum(sum(1 for s in st if s == "accepted") for st in status2) < 2:
            continue
        rep.reachable(ctx)
        check(rep, ctx, az, status2, dist, label=f"after masks {status} -> {status2}: ", prior=status)
        rep.sample({"before": status, "after": status2})


def run_perm(rep, tier, dist):
    """nothing depends on the order of the azimuths"""
    def run(ctx):
        az, status = make_state(ctx, 2, 2, 2)
        HA = az.__class__
        bz = PP.shallow_twin(az)
        bz.hvsrs, bz.azimuths, bz.meta = az.hvsrs[::-1], az.azimuths[::-1], {}
        return az, bz, status

    for ctx, (az, bz, status) in rep.explore(run, max_paths=200):
        if any(sum(1 for s in st if s == "accepted") < 1 for st in status) or sum(sum(1 for s in st if s == "accepted") for st in status) < 2:
            continue
        rep.reachable(ctx)
        W = lambda what: wit(az, status, dist, what)
        for nm in ("mean_fn_frequency", "mean_fn_amplitude"):
            a, b = getattr(az, nm)(dist), getattr(bz, nm)(dist)
            rep.prove(ctx, f"{nm} invariant under azimuth order", Sym.lift(term_in_space(a, dist)) != Sym.lift(term_in_space(b, dist)), witness=W("perm"), key="perm")
        for nm in ("std_fn_frequency", "std_fn_amplitude"):
            a, b = getattr(az, nm)(dist), getattr(bz, nm)(dist)
            rep.prove(ctx, f"{nm} invariant under azimuth order", sqrt_arg(a) != sqrt_arg(b), witness=W("perm"), key="perm")
        ca, cb = az.cov_fn(dist), bz.cov_fn(dist)
        rep.prove(ctx, "cov_fn invariant under azimuth order", [Sym.lift(ca[r, c]) != Sym.lift(cb[r, c]) for r in range(2) for c in range(2)], witness=W("perm"), key="perm")
        ma, mb = az.mean_curve(dist), bz.mean_curve(dist)
        rep.prove(ctx, "mean_curve invariant under azimuth order", [Sym.lift(term_in_space(x, dist)) != Sym.lift(term_in_space(y, dist)) for x, y in zip(ma, mb)], witness=W("perm"), key="perm")


def run_single(rep, tier, dist):
    """with a single azimuth every statistic equals the traditional one"""
    def run(ctx):
        return make_state(ctx, 1, 3, 2)

    for ctx, (az, status) in rep.explore(run, max_paths=200):
        if sum(1 for s in status[0] if s == "accepted") < 2:
            continue
        rep.reachable(ctx)
        h = az.hvsrs[0]
        W = lambda what: wit(az, status, dist, what)
        for nm in ("mean_fn_frequency", "mean_fn_amplitude"):
            rep.prove(ctx, f"single azimuth: {nm} equals the traditional statistic",
                      Sym.lift(term_in_space(getattr(az, nm)(dist), dist)) != Sym.lift(term_in_space(getattr(h, nm)(dist), dist)), witness=W("single"), key="single")
        for nm in ("std_fn_frequency", "std_fn_amplitude"):
            rep.prove(ctx, f"single azimuth: {nm} equals the traditional statistic",
                      sqrt_arg(getattr(az, nm)(dist)) != sqrt_arg(getattr(h, nm)(dist)), witness=W("single"), key="single")
        ca, cb = az.cov_fn(dist), h.cov_fn(dist)
        rep.prove(ctx, "single azimuth: cov_fn equals the traditional statistic", [Sym.lift(ca[r, c]) != Sym.lift(cb[r, c]) for r in range(2) for c in range(2)], witness=W("single"), key="single")
        ma, mb = az.mean_curve(dist), h.mean_curve(dist)
        rep.prove(ctx, "single azimuth: mean_curve equals the traditional statistic", [Sym.lift(term_in_space(x, dist)) != Sym.lift(term_in_space(y, dist)) for x, y in zip(ma, mb)], witness=W("single"), key="single")
        sa, sb = az.std_curve(dist), h.std_curve(dist)
        rep.prove(ctx, "single azimuth: std_curve equals the traditional statistic", [sqrt_arg(x) != sqrt_arg(y) for x, y in zip(sa, sb)], witness=W("single"), key="single")


# ----------------------------------------------------------------------------- concrete side
def _num(x):
    return float("nan") if x == "nan" else float(x)


def _concrete(spec):
    import hvsrpy
    frq = np.array(spec["frequency"])
    hs = []
    for amp, pf, pa, st in zip(spec["amplitude"], spec["peak_frq"], spec["peak_amp"], spec["status"]):
        h = hvsrpy.HvsrTraditional(frq, np.array([[_num(x) for x in row] for row in amp]))
        hs.append(h)
    az = hvsrpy.HvsrAzimuthal(hs, spec.get("azimuths") or [10.0 * k for k in range(len(hs))])
    for status in ([spec["prior_status"]] if spec.get("prior_status") else []) + [spec["status"]]:
        for h, pf, pa, st in zip(az.hvsrs, spec["peak_frq"], spec["peak_amp"], status):
            h._main_peak_frq = np.array([_num(x) for x in pf])
            h._main_peak_amp = np.array([_num(x) for x in pa])
            for i, s in enumerate(st):
                h.valid_window_boolean_mask[i] = h.valid_peak_boolean_mask[i] = (s == "accepted")
        if status is not spec["status"]:
            for nm in STAT_CALLS:                  # the first use of the object, under the earlier masks
                try:
                    getattr(az, nm)(spec["dist"])
                except Exception:   # noqa
                    pass
    return az


def _reference(spec):
    dist = canon(spec["dist"])
    t = np.log if dist == "lognormal" else (lambda v: v)
    back = np.exp if dist == "lognormal" else (lambda v: v)
    naz = len(spec["status"])
    w, f, a, rows = [], [], [], []
    for amp, pf, pa, st in zip(spec["amplitude"], spec["peak_frq"], spec["peak_amp"], spec["status"]):
        acc = [i for i, s in enumerate(st) if s == "accepted"]
        for i in acc:
            w.append(1 / (naz * len(acc)))
            f.append(_num(pf[i]))
            a.append(_num(pa[i]))
            rows.append([_num(x) for x in amp[i]])
    w, f, a, rows = np.array(w), t(np.array(f)), t(np.array(a)), t(np.array(rows))
    norm = 1 - np.sum(w * w)
    out = {}
    mf, ma = np.sum(w * f), np.sum(w * a)
    out["mean_fn_frequency"], out["mean_fn_amplitude"] = back(mf), back(ma)
    out["std_fn_frequency"] = np.sqrt(np.sum(w * (f - mf) ** 2) / norm)
    out["std_fn_amplitude"] = np.sqrt(np.sum(w * (a - ma) ** 2) / norm)
    out["cov_fn"] = np.array([[np.sum(w * (f - mf) ** 2), np.sum(w * (f - mf) * (a - ma))], [np.sum(w * (f - mf) * (a - ma)), np.sum(w * (a - ma) ** 2)]]) / norm
    mc = np.sum(w[:, None] * rows, axis=0)
    out["mean_curve"] = back(mc)
    out["std_curve"] = np.sqrt(np.sum(w[:, None] * (rows - mc) ** 2, axis=0) / norm)
    return out


def replay(spec):
    az = _concrete(spec)
    ref = _reference(spec)
    diffs = []
    for k, want in ref.items():
        try:
            got = getattr(az, k)(spec["dist"])
        except Exception as e:  # noqa
            diffs.append((k, f"raised {type(e).__name__}: {e}"))
            continue
        if not np.allclose(np.asarray(got, dtype=float), want, rtol=1e-9, atol=1e-12):
            diffs.append((k, f"library {np.asarray(got).tolist()} vs weighted estimator {np.asarray(want).tolist()}"))
    if not diffs:
        return {"reproduced": False, "detail": "library agrees with the equal-azimuth-weight estimators"}
    return {"reproduced": True, "key": "estimator-mismatch:" + diffs[0][0], "detail": f"{spec['dist']} {spec['status']}: {diffs[0]}"[:400]}


def validate(spec):
    az = _concrete(spec)
    for k, want in spec.get("expect", {}).items():
        got = np.asarray(getattr(az, k)(spec["dist"]), dtype=float)
        want = np.asarray([_num(x) for x in want] if isinstance(want, list) else _num(want), dtype=float)
        if not np.allclose(got, want, rtol=1e-9, atol=1e-12, equal_nan=True):
            return {"ok": False, "detail": f"{k}: engine {want.tolist()} library {got.tolist()}"}
    return {"ok": True}
