"""C04 - sensor orientation and azimuth handling are geometrically consistent.

The real SeismicRecording3C.__init__ / orient_sensor_to / processing.single_azimuth / processing functions run on
symbolic samples and symbolic angles (unbounded reals: values outside [0,360) included).  cos/sin of a degree
expression are uninterpreted cosd/sind with Pythagoras, and the addition / 180-degree / 360-degree formulas
instantiated for the angle sums that occur (sound instances of true identities).
"""
import numpy as np
import z3

from symx import loader, models
from symx.core import Sym, CSym, Ctx, symarray, qval, is_nan, Settings, UF_COSD, UF_SIND, OutsideClaim
from symx.report import fl, concretiser, real_witness
from harness import pipeline as PP
from harness import C01

FUNCTIONS_Q = ["seismic_recording_3c.SeismicRecording3C.__init__", "seismic_recording_3c.SeismicRecording3C.orient_sensor_to",
               "processing.single_azimuth", "processing.traditional_single_azimuth_hvsr_processing", "processing.azimuthal_hvsr_processing",
               "processing.traditional_rotdpp_hvsr_processing", "processing.squared_average", "processing.total_horizontal_energy",
               "processing._rpds_single_component", "preprocessing.hvsr_preprocess"]
STUBS = C01.STUBS + ["cos/sin of a symbolic angle -> cosd/sind (uninterpreted) + Pythagoras + instantiated addition / periodicity formulas",
                     "floor division in the orientation normalisation -> integer k with 360k <= d < 360(k+1)"]
ASSUMPTIONS = ["floats as reals (rounding of np.radians/cos/sin outside the claim)"]
OUTSIDE = ["rounding of trigonometric functions", "more than 3 samples / 2 azimuths"]
BOUNDS = {"quick": {"samples": "2-3", "azimuths": 2, "n_fft": 4}, "thorough": {"samples": "2-4", "azimuths": "2-3", "n_fft": [4, 8]}}
INSTANCE_TIMEOUT = {"quick": 230, "thorough": 700}
DT = 0.5


def LD():
    return PP.PL(floor=4, key="exact")


def functions_encoded():
    return LD().functions_encoded(FUNCTIONS_Q)


def instances(tier):
    out = [{"name": n, "func": f, "kwargs": k} for n, f, k in (
        ("rotation_energy_vertical", "run_rotation", {}),
        ("compose_and_invert", "run_compose", {}),
        ("normalisation_outside_0_360", "run_normalise", {}),
        ("polarised_motion", "run_polarised", {}),
        ("single_azimuth_is_orient", "run_single_is_orient", {}),
        ("single_azimuth_180_periodic", "run_periodic", {}),
        ("preprocess_orients", "run_preprocess", {}),
        ("rotation_invariant_power", "run_power_invariant", {}),
        ("rotation_invariant_combine_lemma", "run_combine_lemma", {}),
    )]
    for pq in ([(0, 50), (50, 100)] if tier == "quick" else [(0, 30), (30, 50), (50, 100), (0, 100)]):
        out.append({"name": f"rotdpp_monotone_{pq[0]}_{pq[1]}", "func": "run_rotdpp_monotone", "kwargs": {"p": pq[0], "q": pq[1]}})
    out.append({"name": "rotdpp_extremes_are_azimuth_extremes", "func": "run_rotdpp_bounds", "kwargs": {}})
    out.append({"name": "azimuthal_is_stack", "func": "run_azimuthal_stack", "kwargs": {}})
    for m in ("single_azimuth", "azimuthal", "rotdpp"):
        out.append({"name": f"process_orient_process_{m}", "func": "run_process_orient_process", "kwargs": {"method": m}})
    return out


def cs(t):
    t = z3.simplify(t)
    return UF_COSD(t), UF_SIND(t)


def addition(x, y):
    """instances of cos(x+y), sin(x+y) and Pythagoras for x, y, x+y (true for the real functions)."""
    cx, sx = cs(x)
    cy, sy = cs(y)
    cz, sz = cs(x + y)
    return [cz == cx * cy - sx * sy, sz == sx * cy + cx * sy, cx * cx + sx * sx == 1, cy * cy + sy * sy == 1, cz * cz + sz * sz == 1]


def mk(Ld, ctx, L, d, tag="r"):
    s = PP.samples(tag, L, ctx)
    return s, PP.mkrec(Ld, ctx, tag, L, DT, comps=s, degrees=d)


def wit(s, extra):
    def w(m):
        val = concretiser(m)
        d = {"kind": "orient", "ns": [val(x) for x in s["ns"]], "ew": [val(x) for x in s["ew"]], "vt": [val(x) for x in s["vt"]]}
        d.update({k: (val(v) if isinstance(v, Sym) else v) for k, v in extra.items()})
        tap = Ctx.cur.notes.get("tukey", {}) if Ctx.cur is not None else {}
        d["taper"] = {str(k[0]): [val(x) for x in v] for k, v in tap.items()}
        d["taper"].update({f"{k[0]}:{float(k[1])}": [val(x) for x in v] for k, v in tap.items()})
        return d
    return w


def run_rotation(rep, tier):
    Ld = LD()

    def run(ctx):
        d = Sym.var("d", ctx, lo=0)
        ctx.assume(d.e < 360)
        a = Sym.var("a", ctx)
        s, r = mk(Ld, ctx, 2, d)
        r.orient_sensor_to(a)
        return s, r, d, a

    for ctx, (s, r, d, a) in rep.explore(run, max_paths=20):
        W = wit(s, {"d": d, "a": a, "what": "rotation"})
        bad = [Sym.lift(r.ns.amplitude[j] * r.ns.amplitude[j] + r.ew.amplitude[j] * r.ew.amplitude[j]) != Sym.lift(s["ns"][j] * s["ns"][j] + s["ew"][j] * s["ew"][j]) for j in range(2)]
        rep.prove(ctx, "re-orientation preserves ns^2 + ew^2 of every sample", bad, witness=W, key="rotation-not-energy-preserving", nlsat_first=True)
        rep.prove(ctx, "re-orientation leaves the vertical untouched", [Sym.lift(x) != Sym.lift(y) for x, y in zip(r.vt.amplitude, s["vt"])], witness=W, key="vertical-modified")
        rep.prove(ctx, "orientation bookkeeping updated", [Sym.lift(r.degrees_from_north) != a.e, Sym.lift(r.meta["current degrees from north"]) != a.e,
                                                            Sym.lift(r.meta["deployed degrees from north"]) != d.e], witness=W, key="orientation-bookkeeping")
        # it is the clockwise-from-north rotation by (a - d): ns' = ns cos + ew sin ; ew' = ew cos - ns sin
        c_, s_ = cs(a.e - d.e)
        bad = []
        for j in range(2):
            bad += [Sym.lift(r.ns.amplitude[j]) != Sym.lift(s["ns"][j]) * c_ + Sym.lift(s["ew"][j]) * s_,
                    Sym.lift(r.ew.amplitude[j]) != Sym.lift(s["ew"][j]) * c_ - Sym.lift(s["ns"][j]) * s_]
        rep.prove(ctx, "re-orientation is the rotation by (target - current) in the clockwise-from-north convention", bad, witness=W, key="rotation-matrix")


def same_angle(rep, ctx, t1, t2):
    """cosd/sind agree on two degree expressions that the solver proves equal (linear arithmetic)."""
    t1, t2 = z3.simplify(t1), z3.simplify(t2)
    if z3.eq(t1, t2):
        return []
    rep.obligations += 1
    if ctx.check(t1 != t2) == z3.unsat:
        rep.discharged += 1
        return [UF_COSD(t1) == UF_COSD(t2), UF_SIND(t1) == UF_SIND(t2)]
    rep.inconclusive.append(f"angle expressions not proved equal: {t1} vs {t2}")
    return []


def run_compose(rep, tier):
    Ld = LD()

    def run(ctx):
        d = Sym.var("d", ctx, lo=0)
        ctx.assume(d.e < 360)
        a, b = Sym.var("a", ctx), Sym.var("b", ctx)
        s, r1 = mk(Ld, ctx, 2, d)
        ctx.notes["angles"] = []
        r1.orient_sensor_to(a)
        r1.orient_sensor_to(b)
        ang1 = list(dict.fromkeys(ctx.notes["angles"]))
        _, r2 = mk(Ld, ctx, 2, d)
        ctx.notes["angles"] = []
        r2.orient_sensor_to(b)
        ang2 = list(dict.fromkeys(ctx.notes["angles"]))
        _, r3 = mk(Ld, ctx, 2, d)
        ctx.notes["angles"] = []
        r3.orient_sensor_to(a)
        r3.orient_sensor_to(r3.meta["deployed degrees from north"])
        ang3 = list(dict.fromkeys(ctx.notes["angles"]))
        return s, d, a, b, r1, r2, r3, ang1, ang2, ang3

    for ctx, (s, d, a, b, r1, r2, r3, ang1, ang2, ang3) in rep.explore(run, max_paths=20):
        W = wit(s, {"d": d, "a": a, "b": b, "what": "compose"})
        x1, x2 = ang1[0], ang1[1]
        hyp = addition(x1, x2) + same_angle(rep, ctx, x1 + x2, ang2[0])
        bad = []
        for j in range(2):
            bad += [Sym.lift(r1.ns.amplitude[j]) != Sym.lift(r2.ns.amplitude[j]), Sym.lift(r1.ew.amplitude[j]) != Sym.lift(r2.ew.amplitude[j])]
        rep.prove(ctx, "orient(a) then orient(b) equals orient(b)", z3.And(z3.And(hyp), z3.Or(bad)), witness=W, key="not-composable", nlsat_first=True)
        y1, y2 = ang3[0], ang3[1]
        hyp = addition(y1, y2) + same_angle(rep, ctx, y1 + y2, z3.RealVal(0)) + [UF_COSD(z3.RealVal(0)) == 1, UF_SIND(z3.RealVal(0)) == 0]
        bad = []
        for j in range(2):
            bad += [Sym.lift(r3.ns.amplitude[j]) != Sym.lift(s["ns"][j]), Sym.lift(r3.ew.amplitude[j]) != Sym.lift(s["ew"][j])]
        rep.prove(ctx, "orient(a) then back to the deployed angle restores both horizontals", z3.And(z3.And(hyp), z3.Or(bad)), witness=W, key="not-invertible", nlsat_first=True)


def run_normalise(rep, tier):
    Ld = LD()

    def run(ctx):
        d0 = Sym.var("d0", ctx, lo=0)
        ctx.assume(d0.e < 360)
        k = z3.Int("turns")
        d = Sym(d0.e + 360 * z3.ToReal(k))
        s, r = mk(Ld, ctx, 2, d)
        return s, d0, d, r

    for ctx, (s, d0, d, r) in rep.explore(run, max_paths=10):
        W = wit(s, {"d": d, "what": "normalise"})
        rep.prove(ctx, "a deployed angle outside [0,360) is stored modulo 360", Sym.lift(r.degrees_from_north) != d0.e, witness=W, key="normalisation")
        rep.prove(ctx, "construction stores the samples unrotated", [Sym.lift(x) != Sym.lift(y) for c in ("ns", "ew", "vt") for x, y in zip(getattr(r, c).amplitude, s[c])], witness=W, key="constructor-modifies-samples")


def run_polarised(rep, tier):
    Ld = LD()

    def run(ctx):
        p = symarray("p", (2,), ctx)
        v = symarray("v", (2,), ctx)
        alpha = Sym.var("alpha", ctx)
        d = Sym.var("d", ctx, lo=0)
        ctx.assume(d.e < 360)
        c_, s_ = cs(alpha.e - d.e)
        comps = {"ns": np.array([x * Sym(c_) for x in p], dtype=object), "ew": np.array([x * Sym(s_) for x in p], dtype=object), "vt": v}
        r = PP.mkrec(Ld, ctx, "r", 2, DT, comps=comps, degrees=d)
        r.orient_sensor_to(0.0)
        return p, v, alpha, d, r

    for ctx, (p, v, alpha, d, r) in rep.explore(run, max_paths=10):
        hyp = addition(alpha.e - d.e, d.e) + [UF_COSD(z3.simplify(-d.e)) == UF_COSD(d.e), UF_SIND(z3.simplify(-d.e)) == -UF_SIND(d.e)]
        ca, sa = cs(alpha.e)
        bad = []
        for j in range(2):
            bad += [Sym.lift(r.ns.amplitude[j]) != p[j].e * ca, Sym.lift(r.ew.amplitude[j]) != p[j].e * sa, Sym.lift(r.vt.amplitude[j]) != v[j].e]
        rep.prove(ctx, "motion polarised along azimuth alpha, recorded at deployment d, reappears on alpha after orienting to north",
                  z3.And(z3.And(hyp), z3.Or(bad)), witness=lambda m: {"kind": "polarised", "alpha": concretiser(m)(alpha), "d": concretiser(m)(d),
                                                                      "p": [concretiser(m)(x) for x in p]}, key="sign-convention", nlsat_first=True)


def run_single_is_orient(rep, tier):
    Ld = LD()
    P = Ld["processing"]

    def run(ctx):
        a = Sym.var("a", ctx)
        s, r = mk(Ld, ctx, 3, 0.0)
        h = P.single_azimuth(np.array(s["ns"], dtype=object), np.array(s["ew"], dtype=object), a)
        r.orient_sensor_to(a)
        return s, a, h, r

    for ctx, (s, a, h, r) in rep.explore(run, max_paths=10):
        rep.prove(ctx, "single_azimuth(ns, ew, a) is the north component after orient_sensor_to(a)",
                  [Sym.lift(x) != Sym.lift(y) for x, y in zip(h, r.ns.amplitude)], witness=wit(s, {"a": a, "what": "single"}), key="single-azimuth-vs-orient")


def run_periodic(rep, tier):
    """azimuth a + 180 gives the negated horizontal series and therefore the same |F| (evenness of |.| is a C01 stage lemma,
    instantiated here for the bins that occur)."""
    Ld = LD()
    P, S = Ld["processing"], Ld["settings"]
    from symx.core import UF_MAG
    fcs, bws = C01.CFG[4]

    def run(ctx):
        a = Sym.var("a", ctx)
        s = PP.samples("r", 3, ctx)
        outs = []
        for ang in (a, a + 180):
            rec = PP.mkrec(Ld, ctx, "r", 3, DT, comps=s)
            st = S.HvsrTraditionalSingleAzimuthProcessingSettings(azimuth_in_degrees=ang, **PP.settings_kwargs("linear_rectangular", bws["linear_rectangular"], fcs, width=0.3))
            outs.append(C01.process(P, [rec], st).amplitude)
        taper = PP.taper_of(ctx, 3, 0.3)
        c_, s_ = cs(a.e)
        h = [s["ns"][j] * Sym(c_) + s["ew"][j] * Sym(s_) for j in range(3)]
        F = Ld.np.fft.rfft(np.array([h[j] * taper[j] for j in range(3)], dtype=object), n=4)
        even = [UF_MAG(z3.simplify(-x.re.e), z3.simplify(-x.im.e)) == UF_MAG(z3.simplify(x.re.e), z3.simplify(x.im.e)) for x in F]
        return s, a, outs, even

    for ctx, (s, a, outs, even) in rep.explore(run, max_paths=60, timeout_ms=8000):
        hyp = [UF_COSD(z3.simplify(a.e + 180)) == -UF_COSD(a.e), UF_SIND(z3.simplify(a.e + 180)) == -UF_SIND(a.e)] + even
        bad = [Sym.lift(x) != Sym.lift(y) for x, y in zip(outs[0].flat, outs[1].flat)]
        rep.prove(ctx, "single-azimuth HVSR is 180-degree periodic", z3.And(z3.And(hyp), z3.Or(bad)), witness=wit(s, {"a": a, "what": "periodic"}),
                  key="not-180-periodic", timeout_ms=60000)


def run_preprocess(rep, tier):
    """hvsr_preprocess orients every record to the requested angle first (filter = identity here, no split, no detrend)."""
    Ld = LD()
    PR, S = Ld["preprocessing"], Ld["settings"]

    def run(ctx):
        d = Sym.var("d", ctx, lo=0)
        ctx.assume(d.e < 360)
        a = Sym.var("a", ctx)
        s, r = mk(Ld, ctx, 2, d)
        _, ref = mk(Ld, ctx, 2, d)
        st = S.HvsrPreProcessingSettings(orient_to_degrees_from_north=a, filter_corner_frequencies_in_hz=[None, None], window_length_in_seconds=None, detrend=None)
        out = PR.preprocess([r], st)
        ref.orient_sensor_to(a)
        return s, d, a, out, ref

    for ctx, (s, d, a, out, ref) in rep.explore(run, max_paths=10):
        bad = [z3.BoolVal(len(out) != 1)]
        if len(out) == 1:
            for c in ("ns", "ew", "vt"):
                bad += [Sym.lift(x) != Sym.lift(y) for x, y in zip(getattr(out[0], c).amplitude, getattr(ref, c).amplitude)]
            bad.append(Sym.lift(out[0].degrees_from_north) != a.e)
        rep.prove(ctx, "preprocessing orients the sensor to the requested angle", bad, witness=wit(s, {"d": d, "a": a, "what": "preprocess"}), key="preprocess-orientation")


def run_power_invariant(rep, tier):
    """P_ns + P_ew (per FFT bin, any taper) is unchanged by any re-orientation: basis of the rotation invariance of the
    squared-average family, the total-horizontal-energy family and the diffuse-field ratio."""
    Ld = LD()

    def run(ctx):
        d = Sym.var("d", ctx, lo=0)
        ctx.assume(d.e < 360)
        a = Sym.var("a", ctx)
        s, r = mk(Ld, ctx, 3, d)
        taper = PP.taper_of(ctx, 3, 0.3)
        before = [x + y for x, y in zip(PP.power(s["ns"], taper, 4), PP.power(s["ew"], taper, 4))]
        pv_before = PP.power(s["vt"], taper, 4)
        r.orient_sensor_to(a)
        after = [x + y for x, y in zip(PP.power(r.ns.amplitude, taper, 4), PP.power(r.ew.amplitude, taper, 4))]
        pv_after = PP.power(r.vt.amplitude, taper, 4)
        return s, d, a, before, after, pv_before, pv_after

    for ctx, (s, d, a, before, after, pvb, pva) in rep.explore(run, max_paths=10):
        bad = [Sym.lift(x) != Sym.lift(y) for x, y in zip(before, after)] + [Sym.lift(x) != Sym.lift(y) for x, y in zip(pvb, pva)]
        rep.prove(ctx, "|F ns|^2 + |F ew|^2 per bin (and the vertical power) do not depend on the sensor orientation", bad,
                  witness=wit(s, {"d": d, "a": a, "what": "power"}), key="power-not-rotation-invariant", nlsat_first=True, timeout_ms=40000)


def run_combine_lemma(rep, tier):
    """the rotation-invariant combine functions depend on (a, b) only through a^2 + b^2 (exact sqrt)."""
    Ld = LD()
    P = Ld["processing"]
    Settings.sqrt_mode = "exact"
    try:
        for key, fn in P.COMBINE_HORIZONTAL_REGISTER.items():
            if PP.FAMILY.get(key) not in ("squared", "energy"):
                continue

            def run(ctx, fn=fn):
                a, b, a2, b2 = (Sym.var(n, ctx, lo=0) for n in ("a", "b", "a2", "b2"))
                ctx.assume(a.e * a.e + b.e * b.e == a2.e * a2.e + b2.e * b2.e)
                return fn(np.array([a], dtype=object), np.array([b], dtype=object), None)[0], fn(np.array([a2], dtype=object), np.array([b2], dtype=object), None)[0]

            for ctx, (x, y) in rep.explore(run, max_paths=10):
                rep.prove(ctx, f"{key}: value depends on the horizontals only through a^2 + b^2", Sym.lift(x) != Sym.lift(y), witness=None, key=f"combine-not-energy-function:{key}",
                          nlsat_first=True, timeout_ms=30000)
    finally:
        Settings.sqrt_mode = "uf"


def run_rotdpp_monotone(rep, tier, p, q):
    Ld = LD()
    P, S = Ld["processing"], Ld["settings"]
    fcs, bws = C01.CFG[4]

    def run(ctx):
        s = PP.samples("r", 3, ctx)
        azs = [Sym.var("az0", ctx), Sym.var("az1", ctx)]
        outs = []
        for pp in (p, q):
            rec = PP.mkrec(Ld, ctx, "r", 3, DT, comps=s)
            st = S.HvsrTraditionalRotDppProcessingSettings(azimuths_in_degrees=azs, ppth_percentile_for_rotdpp_computation=pp,
                                                           **PP.settings_kwargs("linear_rectangular", bws["linear_rectangular"], fcs, width=0.3))
            outs.append(C01.process(P, [rec], st).amplitude)
        return s, azs, outs

    for ctx, (s, azs, outs) in rep.explore(run, max_paths=300, timeout_ms=6000):
        bad = [Sym.lift(x) > Sym.lift(y) for x, y in zip(outs[0].flat, outs[1].flat)]
        rep.prove(ctx, f"RotD{p} <= RotD{q} in every cell", bad, witness=wit(s, {"az0": azs[0], "az1": azs[1], "p": p, "q": q, "what": "rotdpp"}),
                  key="rotdpp-not-monotone", timeout_ms=30000)


def run_rotdpp_bounds(rep, tier):
    """RotD100 / RotD0 are, cell by cell, the largest / smallest of the single-azimuth HVSRs of the same azimuths (the percentile is
    taken over the HVSR-defining smoothed spectra, not before smoothing)."""
    Ld = LD()
    P, S = Ld["processing"], Ld["settings"]
    fcs, bws = C01.CFG[4]
    azs = [0.0, 60.0]
    kw = lambda: PP.settings_kwargs("linear_rectangular", bws["linear_rectangular"], fcs, width=0.3)

    def run(ctx):
        s = PP.samples("r", 3, ctx)
        mk = lambda: PP.mkrec(Ld, ctx, "r", 3, DT, comps=s)
        az = C01.process(P, [mk()], S.HvsrAzimuthalProcessingSettings(azimuths_in_degrees=list(azs), **kw()))
        per_az = [list(np.asarray(h.amplitude, dtype=object)[0]) for h in az.hvsrs]
        r = {pp: list(np.asarray(C01.process(P, [mk()], S.HvsrTraditionalRotDppProcessingSettings(azimuths_in_degrees=list(azs), ppth_percentile_for_rotdpp_computation=pp, **kw())).amplitude,
                                 dtype=object)[0]) for pp in (100.0, 0.0)}
        return s, per_az, r

    for ctx, (s, per_az, r) in rep.explore(run, max_paths=200, timeout_ms=6000):
        bad = []
        for j in range(len(per_az[0])):
            a0, a1 = Sym.lift(per_az[0][j]), Sym.lift(per_az[1][j])
            hi, lo = Sym.lift(r[100.0][j]), Sym.lift(r[0.0][j])
            bad += [z3.And(hi != a0, hi != a1), hi < a0, hi < a1, z3.And(lo != a0, lo != a1), lo > a0, lo > a1]
        rep.prove(ctx, "RotD100 / RotD0 equal the largest / smallest single-azimuth HVSR in every cell (azimuths 0 and 60)", bad,
                  witness=wit(s, {"what": "rotdpp-bounds", "az0": azs[0], "az1": azs[1]}), key="rotdpp-not-azimuth-extreme", timeout_ms=30000, real=True)


def run_process_orient_process(rep, tier, method, op="orient"):
    """processing a recording, changing it in place through a public method (re-orienting; detrending; tapering) and processing
    it again gives the result of processing a freshly built recording that holds the changed samples (nothing of the first run
    may survive in the objects)."""
    from harness import C09
    Ld = LD()
    P, S = Ld["processing"], Ld["settings"]
    target = 30.0

    def run(ctx):
        s, r = mk(Ld, ctx, 3, 0.0)
        st = C09.make_settings(S, method, 4)
        C01.process(P, [r], st)
        if op == "orient":
            r.orient_sensor_to(target)
        elif op == "detrend":
            r.detrend("linear")
        else:
            r.window("tukey", 0.3)
        again = C09.out_terms(C01.process(P, [r], st))
        comps = {c: np.array(list(getattr(r, c).amplitude), dtype=object) for c in ("ns", "ew", "vt")}
        fresh = PP.mkrec(Ld, ctx, "f", 3, DT, comps=comps, degrees=r.degrees_from_north)
        ref = C09.out_terms(C01.process(P, [fresh], C09.make_settings(S, method, 4)))
        return s, again, ref

    for ctx, (s, again, ref) in rep.explore(run, max_paths=40 if tier == "quick" else 200, timeout_ms=5000):
        bad = [z3.BoolVal(len(again) != len(ref))] + [z3.BoolVal(not (is_nan(x) and is_nan(y))) if (is_nan(x) or is_nan(y)) else Sym.lift(x) != Sym.lift(y) for x, y in zip(again, ref)]
        rep.prove(ctx, f"{method}: process, {op} in place, process again = process of a fresh recording holding the changed samples", bad,
                  witness=wit(s, {"what": "process-orient-process", "method": method, "target": target, "op": op}), key="stale-after-reorient" if op == "orient" else "stale-after-in-place-change",
                  shape=[z3.And(v.e >= qval(0.5) + qval(0.25) * j, v.e <= 3 + qval(0.25) * j) for c in ("ns", "ew", "vt") for j, v in enumerate(s[c])])   # witness shaping: no zero spectra


def run_azimuthal_stack(rep, tier):
    C01.run_azimuthal(rep, tier, 4)


# ----------------------------------------------------------------------------- concrete side
def replay(spec):
    import hvsrpy
    if spec["kind"] == "polarised":
        p = np.array(spec["p"], dtype=float)
        al, d = np.radians(spec["alpha"]), np.radians(spec["d"])
        r = hvsrpy.SeismicRecording3C(hvsrpy.TimeSeries(p * np.cos(al - d), DT), hvsrpy.TimeSeries(p * np.sin(al - d), DT), hvsrpy.TimeSeries(p * 0, DT), degrees_from_north=spec["d"])
        r.orient_sensor_to(0.0)
        if not (np.allclose(r.ns.amplitude, p * np.cos(al), atol=1e-9) and np.allclose(r.ew.amplitude, p * np.sin(al), atol=1e-9)):
            return {"reproduced": True, "key": "sign-convention", "detail": f"alpha={spec['alpha']} d={spec['d']}: ns {r.ns.amplitude.tolist()} ew {r.ew.amplitude.tolist()}"}
        return {"reproduced": False, "detail": "convention holds"}
    if spec["kind"] != "orient":
        return C01.replay(spec)
    mkr = lambda d: hvsrpy.SeismicRecording3C(*[hvsrpy.TimeSeries(np.array(spec[c], dtype=float), DT) for c in ("ns", "ew", "vt")], degrees_from_north=d)
    ns, ew, vt = (np.array(spec[c], dtype=float) for c in ("ns", "ew", "vt"))
    what = spec["what"]
    d = spec.get("d", 0.0)
    if what in ("rotation", "compose", "preprocess", "normalise", "power"):
        a = spec.get("a", 0.0)
        r = mkr(d)
        if what == "normalise":
            ok = abs(r.degrees_from_north - (d % 360)) < 1e-9 and np.array_equal(r.ns.amplitude, ns)
            return {"reproduced": not ok, "key": "normalisation", "detail": f"d={d} stored {r.degrees_from_north}"}
        if what == "preprocess":
            st = hvsrpy.HvsrPreProcessingSettings(orient_to_degrees_from_north=a, filter_corner_frequencies_in_hz=[None, None], window_length_in_seconds=None, detrend=None)
            r = hvsrpy.preprocess([r], st)[0]
        else:
            r.orient_sensor_to(a)
        th = np.radians(a - (d % 360))
        wn, we = ns * np.cos(th) + ew * np.sin(th), ew * np.cos(th) - ns * np.sin(th)
        if not (np.allclose(r.ns.amplitude, wn, atol=1e-9) and np.allclose(r.ew.amplitude, we, atol=1e-9) and np.array_equal(r.vt.amplitude, vt)):
            return {"reproduced": True, "key": "rotation-matrix", "detail": f"d={d} a={a}: ns {r.ns.amplitude.tolist()} expected {wn.tolist()}"}
        if what == "compose":
            r.orient_sensor_to(spec["b"])
            th = np.radians(spec["b"] - (d % 360))
            if not np.allclose(r.ns.amplitude, ns * np.cos(th) + ew * np.sin(th), atol=1e-9):
                return {"reproduced": True, "key": "not-composable", "detail": "two-step orientation differs from the direct one"}
        if abs(r.degrees_from_north - (spec["b"] if what == "compose" else a)) > 1e-9:
            return {"reproduced": True, "key": "orientation-bookkeeping", "detail": f"degrees_from_north={r.degrees_from_north}"}
        return {"reproduced": False, "detail": "rotation as specified"}
    if what == "single":
        from hvsrpy.processing import single_azimuth
        h = single_azimuth(ns, ew, spec["a"])
        r = mkr(0.0)
        r.orient_sensor_to(spec["a"])
        return {"reproduced": not np.allclose(h, r.ns.amplitude, atol=1e-12), "key": "single-azimuth-vs-orient", "detail": f"{h.tolist()} vs {r.ns.amplitude.tolist()}"}
    if what == "process-orient-process":
        sp = {"nfft": 4, "taper": {}, "records": [{c: spec[c] for c in ("ns", "ew", "vt")}]}
        hv, P, T, saved = C01._patched(sp)
        try:
            fcs, bws = C01.CFG[4]
            kw = dict(window_type_and_width=["tukey", 0.3], smoothing=dict(operator="linear_triangular", bandwidth=bws["linear_triangular"], center_frequencies_in_hz=list(fcs)))
            mkst = {"geometric_mean": lambda: hv.HvsrTraditionalProcessingSettings(method_to_combine_horizontals="geometric_mean", **kw),
                    "single_azimuth": lambda: hv.HvsrTraditionalSingleAzimuthProcessingSettings(azimuth_in_degrees=30.0, **kw),
                    "azimuthal": lambda: hv.HvsrAzimuthalProcessingSettings(azimuths_in_degrees=[0.0, 60.0], **kw),
                    "rotdpp": lambda: hv.HvsrTraditionalRotDppProcessingSettings(azimuths_in_degrees=[0.0, 60.0], ppth_percentile_for_rotdpp_computation=50.0, **kw)}[spec["method"]]
            flat = lambda res: np.concatenate([np.asarray(h.amplitude, dtype=float).ravel() for h in (res.hvsrs if hasattr(res, "hvsrs") else [res])])
            r = mkr(0.0)
            st = mkst()
            hv.process([r], st)
            if spec.get("op", "orient") == "orient":
                r.orient_sensor_to(spec["target"])
            elif spec["op"] == "detrend":
                r.detrend("linear")
            else:
                r.window("tukey", 0.3)
            again = flat(hv.process([r], st))
            fresh = hvsrpy.SeismicRecording3C(*[hvsrpy.TimeSeries(np.array(getattr(r, c).amplitude, dtype=float), DT) for c in ("ns", "ew", "vt")], degrees_from_north=r.degrees_from_north)
            ref = flat(hv.process([fresh], mkst()))
            return {"reproduced": not np.allclose(again, ref, rtol=1e-9, equal_nan=True), "key": "stale-after-reorient" if spec.get("op", "orient") == "orient" else "stale-after-in-place-change",
                    "detail": f"{spec['method']}: process / {spec.get('op', 'orient')} in place ({spec['target']}) / process gives {again.tolist()}, a fresh recording with the same samples {ref.tolist()}"[:400]}
        finally:
            C01._restore(P, T, saved)
    if what in ("periodic", "rotdpp", "rotdpp-bounds"):
        sp = {"nfft": 4, "taper": spec.get("taper", {}) if what == "rotdpp-bounds" else {}, "records": [{c: spec[c] for c in ("ns", "ew", "vt")}]}
        hv, P, T, saved = C01._patched(sp)
        try:
            fcs, bws = C01.CFG[4]
            kw = dict(window_type_and_width=["tukey", 0.3], smoothing=dict(operator="linear_rectangular", bandwidth=bws["linear_rectangular"], center_frequencies_in_hz=list(fcs)))
            run = lambda st: np.asarray(hv.process([mkr(0.0)], st).amplitude, dtype=float)
            if what == "rotdpp-bounds":
                azl = [spec["az0"], spec["az1"]]
                az = hv.process([mkr(0.0)], hv.HvsrAzimuthalProcessingSettings(azimuths_in_degrees=azl, **kw))
                per = np.array([np.asarray(h.amplitude, dtype=float)[0] for h in az.hvsrs])
                rr = {pp: run(hv.HvsrTraditionalRotDppProcessingSettings(azimuths_in_degrees=azl, ppth_percentile_for_rotdpp_computation=pp, **kw))[0] for pp in (100.0, 0.0)}
                ok = np.allclose(rr[100.0], per.max(axis=0), rtol=1e-9, equal_nan=True) and np.allclose(rr[0.0], per.min(axis=0), rtol=1e-9, equal_nan=True)
                return {"reproduced": not ok, "key": "rotdpp-not-azimuth-extreme",
                        "detail": f"RotD100 {rr[100.0].tolist()} / RotD0 {rr[0.0].tolist()} vs per-azimuth HVSR max {per.max(axis=0).tolist()} / min {per.min(axis=0).tolist()}"[:400]}
            if what == "periodic":
                a0 = run(hv.HvsrTraditionalSingleAzimuthProcessingSettings(azimuth_in_degrees=spec["a"], **kw))
                a1 = run(hv.HvsrTraditionalSingleAzimuthProcessingSettings(azimuth_in_degrees=spec["a"] + 180, **kw))
                return {"reproduced": not np.allclose(a0, a1, rtol=1e-7, equal_nan=True), "key": "not-180-periodic", "detail": f"{a0.tolist()} vs {a1.tolist()}"}
            mkst = lambda p: hv.HvsrTraditionalRotDppProcessingSettings(azimuths_in_degrees=[spec["az0"], spec["az1"]], ppth_percentile_for_rotdpp_computation=p, **kw)
            a0, a1 = run(mkst(spec["p"])), run(mkst(spec["q"]))
            return {"reproduced": bool((a0 > a1 * (1 + 1e-12)).any()), "key": "rotdpp-not-monotone", "detail": f"RotD{spec['p']} {a0.tolist()} RotD{spec['q']} {a1.tolist()}"}
        finally:
            C01._restore(P, T, saved)
    return {"reproduced": False, "detail": "no concrete replay for " + what}


def validate(spec):
    return {"ok": True, "skipped": True}
