"""C05 - statistics are the stated estimators over exactly the accepted windows.

State-based: an HvsrTraditional object is put directly into an arbitrary valid state (symbolic positive
curves, symbolic peak frequency/amplitude or NaN per window, solver-forked accept/reject status per window)
and every statistic accessor of the real source is executed on it.  Each returned term must equal the
textbook estimator written down independently in this file over the accepted rows only.
"""
import itertools

import numpy as np
import z3
from harness import pipeline as PP

from symx import loader
from symx.core import Sym, Ctx, symarray, qval, model_value, is_nan, free_vars, UF_EXP, UF_SQRT, Settings
from symx.report import fl, concretiser

FUNCTIONS_Q = ["hvsr_traditional.HvsrTraditional.mean_fn_frequency", "hvsr_traditional.HvsrTraditional.mean_fn_amplitude",
               "hvsr_traditional.HvsrTraditional.std_fn_frequency", "hvsr_traditional.HvsrTraditional.std_fn_amplitude",
               "hvsr_traditional.HvsrTraditional.cov_fn", "hvsr_traditional.HvsrTraditional.mean_curve",
               "hvsr_traditional.HvsrTraditional.std_curve", "hvsr_traditional.HvsrTraditional.nth_std_fn_frequency",
               "hvsr_traditional.HvsrTraditional.nth_std_fn_amplitude", "hvsr_traditional.HvsrTraditional.nth_std_curve",
               "hvsr_traditional.HvsrTraditional.update_peaks_bounded",
               "statistics._nanmean_weighted", "statistics._nanstd_weighted", "statistics._nth_std_factory",
               "statistics._distribution_factory"]
STUBS = ["scipy.signal.find_peaks -> _local_maxima_1d transcription (only in the transition instances)",
         "np.cov(x, y, ddof=1) routed through numpy's own aweights=ones branch (identical n-1 normalisation)",
         "exp/log: positive inputs are exp(u); log(exp(u)) = u; sqrt uninterpreted (argument equality is what is decided)"]
ASSUMPTIONS = ["floats read as reals (no rounding)", "peak frequencies/amplitudes and curve values > 0",
               "state invariant: a rejected window has both masks False; a window whose peak is NaN is either masked out "
               "or (after time-domain rejection) carries a True mask - both kinds of state are explored"]
OUTSIDE = ["more windows/frequencies than the bound", "rounding"]
BOUNDS = {"quick": {"windows": "2-3", "frequencies": 2, "distributions": ["normal", "lognormal", "log-normal"]},
          "thorough": {"windows": "2-4", "frequencies": 3, "distributions": ["normal", "lognormal", "log-normal"]}}
INSTANCE_TIMEOUT = {"quick": 200, "thorough": 700}
DISTS = ["normal", "lognormal", "log-normal"]
_L = None


def L():
    global _L
    if _L is None:
        _L = loader.load(["hvsr_curve", "hvsr_traditional", "statistics"])
    return _L


def functions_encoded():
    return L().functions_encoded(FUNCTIONS_Q)


def instances(tier):
    out = []
    ws = [2, 3] if tier == "quick" else [2, 3, 4]
    nf = 2 if tier == "quick" else 3
    for w in ws:
        for dist in DISTS:
            out.append({"name": f"state_w{w}_{dist}", "func": "run_state", "kwargs": {"w": w, "nf": nf, "dist": dist, "nan_valid": False}})
    for dist in DISTS:
        out.append({"name": f"state_nanvalid_w3_{dist}", "func": "run_state", "kwargs": {"w": 3, "nf": 2, "dist": dist, "nan_valid": True}})
        out.append({"name": f"reciprocal_{dist}", "func": "run_reciprocal", "kwargs": {"w": 3, "dist": dist}})
        out.append({"name": f"transition_{dist}", "func": "run_transition", "kwargs": {"dist": dist}})
    return out


# ----------------------------------------------------------------------------- specification (textbook estimators)
def canon(dist):
    return {"normal": "normal", "lognormal": "lognormal", "log-normal": "lognormal"}[dist]


def xform(v, dist):
    """value in the space the estimator works in"""
    return v.log() if canon(dist) == "lognormal" else v


def spec_mean_t(vals, dist):
    xs = [xform(v, dist) for v in vals]
    return sum(xs[1:], xs[0]) / len(xs)


def spec_var_t(vals, dist):
    xs = [xform(v, dist) for v in vals]
    m = sum(xs[1:], xs[0]) / len(xs)
    d = [(x - m) * (x - m) for x in xs]
    return sum(d[1:], d[0]) / (len(xs) - 1)


def spec_cov_t(xs_, ys_, dist):
    xs = [xform(v, dist) for v in xs_]
    ys = [xform(v, dist) for v in ys_]
    mx = sum(xs[1:], xs[0]) / len(xs)
    my = sum(ys[1:], ys[0]) / len(ys)
    d = [(x - mx) * (y - my) for x, y in zip(xs, ys)]
    return sum(d[1:], d[0]) / (len(xs) - 1)


def term_in_space(res, dist):
    """statistic returned by the code, pulled back to the estimator's space (log for lognormal means)."""
    if canon(dist) == "lognormal":
        return res.log()
    return res


def sqrt_arg(res):
    """argument of the (uninterpreted) sqrt application the code returned; None if it is not one."""
    e = res.e
    if z3.is_app(e) and e.decl().name() == "sqrt" and e.num_args() == 1:
        return e.arg(0)
    if z3.is_app(e) and e.decl().name() == "exp" and res.lg is not None:
        return None
    return None


# ----------------------------------------------------------------------------- state construction
STATUS = ["accepted", "rejected", "nopeak", "nopeak_valid"]


def make_state(ctx, w, nf, nan_valid):
    HT = L()["hvsr_traditional"].HvsrTraditional
    frq = np.arange(1.0, nf + 1)
    amp = symarray("a", (w, nf), ctx, pos="exp")
    h = PP.shell_traditional(HT)
    h.frequency, h.amplitude, h.n_curves, h.meta = frq, amp, w, {}
    h._main_peak_frq = np.empty(w, dtype=object)
    h._main_peak_amp = np.empty(w, dtype=object)
    h.valid_window_boolean_mask = np.ones(w, dtype=bool)
    h.valid_peak_boolean_mask = np.ones(w, dtype=bool)
    h._search_range_in_hz, h._find_peaks_kwargs = (None, None), {}
    status = []
    nchoices = 4 if nan_valid else 3
    for i in range(w):
        s = STATUS[ctx.choose(nchoices, tag=f"status{i}")]
        status.append(s)
        if s in ("nopeak", "nopeak_valid"):
            h._main_peak_frq[i] = float("nan")
            h._main_peak_amp[i] = float("nan")
        else:
            h._main_peak_frq[i] = Sym.posvar(f"pf{i}", ctx)
            h._main_peak_amp[i] = Sym.posvar(f"pa{i}", ctx)
        ok = s in ("accepted", "nopeak_valid")
        h.valid_window_boolean_mask[i] = ok
        h.valid_peak_boolean_mask[i] = ok
    return h, status


def state_witness(h, status, dist, what):
    def w(m):
        val = concretiser(m)
        return {"kind": "state", "dist": dist, "what": what, "status": list(status),
                "frequency": [val(f) for f in h.frequency],
                "amplitude": [[val(x) for x in row] for row in h.amplitude],
                "peak_frq": [val(x) for x in h._main_peak_frq], "peak_amp": [val(x) for x in h._main_peak_amp]}
    return w


def call(rep, ctx, label, fn, wit):
    """Run an accessor; an exception of the real code on a feasible state is itself a candidate."""
    try:
        return True, fn()
    except (ValueError, TypeError, KeyError, IndexError, NotImplementedError) as e:
        r, m = ctx.model()
        if r == z3.sat:
            spec = wit(m)
            spec["raised"] = type(e).__name__
            rep.candidate(spec, f"{label} raised {type(e).__name__}: {str(e)[:80]}", key=f"raises-{type(e).__name__}")
        rep.obligations += 1
        return False, None


def _eq(rep, ctx, label, got, want, wit, key=None):
    rep.prove(ctx, label, Sym.lift(got) != Sym.lift(want), witness=wit, key=key)


def check_statistics(rep, ctx, h, status, dist, nvals=(1, -1, 2), label=""):
    acc = [i for i, s in enumerate(status) if s in ("accepted", "nopeak_valid")]
    withpeak = [i for i in acc if status[i] == "accepted"]
    rejected_syms = set()
    for i, s in enumerate(status):
        if i not in acc:
            for x in list(h.amplitude[i]) + [h._main_peak_frq[i], h._main_peak_amp[i]]:
                if isinstance(x, Sym):
                    rejected_syms |= free_vars(x.e)
                    if x.lg is not None:
                        rejected_syms |= free_vars(x.lg)
    used = set()
    results = {}

    def track(x):
        if isinstance(x, Sym):
            used.update(free_vars(x.e))
        elif isinstance(x, np.ndarray):
            for v in x.flat:
                track(v)
        return x

    W = lambda what: state_witness(h, status, dist, what)
    pf = [h._main_peak_frq[i] for i in withpeak]
    pa = [h._main_peak_amp[i] for i in withpeak]
    if len(withpeak) >= 2:
        for nm, vals, mean_f, std_f, nth_f in (("frequency", pf, h.mean_fn_frequency, h.std_fn_frequency, h.nth_std_fn_frequency),
                                               ("amplitude", pa, h.mean_fn_amplitude, h.std_fn_amplitude, h.nth_std_fn_amplitude)):
            ok, mean = call(rep, ctx, f"mean_fn_{nm}", lambda: mean_f(dist), W(f"mean_fn_{nm}"))
            if ok:
                track(mean)
                results[f"mean_fn_{nm}"] = mean
                _eq(rep, ctx, f"{label}mean_fn_{nm}({dist}) is the (log-)mean over accepted windows with a peak",
                    term_in_space(mean, dist), spec_mean_t(vals, dist), W(f"mean_fn_{nm}"), key=f"mean-{dist}")
            ok, std = call(rep, ctx, f"std_fn_{nm}", lambda: std_f(dist), W(f"std_fn_{nm}"))
            if ok:
                track(std)
                results[f"std_fn_{nm}"] = std
                arg = sqrt_arg(std)
                want = spec_var_t(vals, dist)
                if arg is None:
                    rep.inconclusive.append(f"std_fn_{nm}({dist}) is not a sqrt application")
                else:
                    rep.prove(ctx, f"{label}std_fn_{nm}({dist})^2 is the n-1 sample variance (log space for lognormal)",
                              arg != want.e, witness=W(f"std_fn_{nm}"), key=f"std-{dist}")
            if ok:
                for n in nvals:
                    ok2, nth = call(rep, ctx, f"nth_std_fn_{nm}", lambda: nth_f(n, dist), W(f"nth_std_fn_{nm}:{n}"))
                    if ok2 and mean is not None:
                        track(nth)
                        want = term_in_space(mean, dist) + std * n
                        _eq(rep, ctx, f"{label}nth_std_fn_{nm}({n},{dist}) = mean + n*std in the estimator's space",
                            term_in_space(nth, dist), want, W(f"nth_std_fn_{nm}:{n}"), key=f"nth-{dist}")
        ok, cov = call(rep, ctx, "cov_fn", lambda: h.cov_fn(dist), W("cov_fn"))
        if ok:
            track(cov)
            want = [[spec_var_t(pf, dist), spec_cov_t(pf, pa, dist)], [spec_cov_t(pf, pa, dist), spec_var_t(pa, dist)]]
            bad = []
            for r in range(2):
                for c in range(2):
                    g = cov[r, c]
                    if is_nan(g):
                        bad.append(z3.BoolVal(True))
                    else:
                        bad.append(Sym.lift(g) != want[r][c].e)
            rep.prove(ctx, f"{label}cov_fn({dist}) is the n-1 covariance of accepted (log-)peaks", bad, witness=W("cov_fn"), key=f"cov-{dist}")
    # curves: accepted rows (window mask)
    if len(acc) >= 1:
        ok, mc = call(rep, ctx, "mean_curve", lambda: h.mean_curve(dist), W("mean_curve"))
        if ok:
            track(mc)
            results["mean_curve"] = mc
            bad = []
            for j in range(h.amplitude.shape[1]):
                col = [h.amplitude[i, j] for i in acc]
                bad.append(Sym.lift(term_in_space(mc[j], dist)) != spec_mean_t(col, dist).e)
            rep.prove(ctx, f"{label}mean_curve({dist}) is the column-wise (log-)mean of accepted windows", bad, witness=W("mean_curve"), key=f"meancurve-{dist}")
    if len(acc) >= 2:
        ok, sc = call(rep, ctx, "std_curve", lambda: h.std_curve(dist), W("std_curve"))
        if ok:
            track(sc)
            bad = []
            for j in range(h.amplitude.shape[1]):
                col = [h.amplitude[i, j] for i in acc]
                arg = sqrt_arg(sc[j])
                bad.append(z3.BoolVal(True) if arg is None else arg != spec_var_t(col, dist).e)
            rep.prove(ctx, f"{label}std_curve({dist})^2 is the column-wise n-1 variance of accepted windows", bad, witness=W("std_curve"), key=f"stdcurve-{dist}")
            ok2, nc = call(rep, ctx, "nth_std_curve", lambda: h.nth_std_curve(-1, dist), W("nth_std_curve"))
            if ok2 and ok:
                track(nc)
                bad = [Sym.lift(term_in_space(nc[j], dist)) != Sym.lift(term_in_space(mc[j], dist) - sc[j]) for j in range(len(nc))]
                rep.prove(ctx, f"{label}nth_std_curve(-1,{dist}) = mean - std in the estimator's space", bad, witness=W("nth_std_curve"), key=f"nthcurve-{dist}")
    # frame: nothing of a rejected window occurs in any returned term
    rep.obligations += 1
    leak = used & rejected_syms
    if leak:
        r, m = ctx.model()
        rep.candidate(W("frame")(m), f"{label}symbols of rejected windows occur in a statistic: {sorted(leak)[:4]}", key="rejected-window-leaks")
    else:
        rep.discharged += 1
    return results


def run_state(rep, tier, w, nf, dist, nan_valid):
    def run(ctx):
        return make_state(ctx, w, nf, nan_valid)

    for ctx, (h, status) in rep.explore(run, max_paths=400):
        n_with = sum(1 for s in status if s == "accepted")
        if n_with < 2:
            continue          # the property quantifies over states with at least two accepted windows
        if nan_valid and "nopeak_valid" not in status:
            continue          # covered by the plain instance
        rep.reachable(ctx)
        results = check_statistics(rep, ctx, h, status, dist)
        r, m = ctx.model()
        if r == z3.sat:
            spec = state_witness(h, status, dist, "validate")(m)
            spec["instance"] = rep.name
            val = concretiser(m)
            spec["expect"] = {k: ([val(x) for x in v] if isinstance(v, np.ndarray) else val(v)) for k, v in results.items()
                              if not (isinstance(v, float))}
            rep.validation(spec)
            rep.sample({"status": status, "dist": dist, "peak_frq": spec["peak_frq"]})


def run_reciprocal(rep, tier, w, dist):
    """lognormal: median of 1/f is 1/median(f) with the same log-std; +-n symmetric about the median in log space."""
    HT = L()["hvsr_traditional"].HvsrTraditional

    def run(ctx):
        h, status = make_state(ctx, w, 2, False)
        g = PP.shallow_twin(h)
        g._main_peak_frq = np.array([x if is_nan(x) else 1 / x for x in h._main_peak_frq], dtype=object)
        return h, g, status

    for ctx, (h, g, status) in rep.explore(run, max_paths=200):
        if sum(1 for s in status if s == "accepted") < 2:
            continue
        rep.reachable(ctx)
        W = lambda what: state_witness(h, status, dist, what)
        mf, mp = h.mean_fn_frequency(dist), g.mean_fn_frequency(dist)
        sf, sp = h.std_fn_frequency(dist), g.std_fn_frequency(dist)
        if canon(dist) == "lognormal":
            _eq(rep, ctx, "log median of periods = -log median of frequencies", mp.log(), -mf.log(), W("reciprocal-mean"), key=f"reciprocal-{dist}")
            a, b = sqrt_arg(sf), sqrt_arg(sp)
            rep.prove(ctx, "log-std of periods = log-std of frequencies", z3.BoolVal(True) if a is None or b is None else a != b,
                      witness=W("reciprocal-std"), key=f"reciprocal-{dist}")
            n = Sym(z3.Real("n"))
            up, dn = h.nth_std_fn_frequency(n, dist), h.nth_std_fn_frequency(-n, dist)
            _eq(rep, ctx, "+n and -n symmetric about the median in log space", up.log() - mf.log(), mf.log() - dn.log(),
                W("symmetry"), key=f"symmetry-{dist}")
        else:
            n = Sym(z3.Real("n"))
            up, dn = h.nth_std_fn_frequency(n, dist), h.nth_std_fn_frequency(-n, dist)
            _eq(rep, ctx, "+n and -n symmetric about the mean", up - mf, mf - dn, W("symmetry"), key=f"symmetry-{dist}")


def run_transition(rep, tier, dist):
    """History part: constructor + range update on symbolic curves establishes the state invariant, and the
    statistics of the reached state are the estimators over the windows that have a peak."""
    HT = L()["hvsr_traditional"].HvsrTraditional
    w, nf = 2, 4

    def run(ctx):
        frq = symarray("f", (nf,), ctx, pos="exp")          # symbolic increasing positive grid
        for j in range(1, nf):
            ctx.assume(frq[j].lg > frq[j - 1].lg)
        amp = symarray("a", (w, nf), ctx, pos="exp")
        h = HT(frq, amp)
        hi = Sym(z3.Real("fhi"))
        h.update_peaks_bounded(search_range_in_hz=(None, hi))
        return h

    for ctx, h in rep.explore(run, max_paths=1500 if tier == "quick" else 10000):
        rep.reachable(ctx)
        status = []
        inv_ok = True
        any_peak = any(not is_nan(x) for x in h._main_peak_frq)
        for i in range(w):
            nopeak = is_nan(h._main_peak_frq[i])
            if nopeak:
                status.append("nopeak" if any_peak else "nopeak")
                inv_ok &= (not h.valid_peak_boolean_mask[i]) and (h.valid_window_boolean_mask[i] == (not any_peak))
            else:
                status.append("accepted")
                inv_ok &= bool(h.valid_peak_boolean_mask[i]) and bool(h.valid_window_boolean_mask[i])
        rep.obligations += 1
        if inv_ok:
            rep.discharged += 1
        else:
            r, m = ctx.model()
            rep.candidate(state_witness(h, status, dist, "invariant")(m), "mask/peak invariant broken after update_peaks_bounded", key="invariant")
        if sum(1 for s in status if s == "accepted") >= 2:
            check_statistics(rep, ctx, h, status, dist, nvals=(1,), label="after range update: ")


# ----------------------------------------------------------------------------- concrete side
def _num(x):
    return float("nan") if x == "nan" else float(x)


def _concrete(spec):
    import hvsrpy
    frq = np.array(spec["frequency"])
    amp = np.array([[_num(x) for x in row] for row in spec["amplitude"]])
    h = hvsrpy.HvsrTraditional(frq, amp)
    h._main_peak_frq = np.array([_num(x) for x in spec["peak_frq"]])
    h._main_peak_amp = np.array([_num(x) for x in spec["peak_amp"]])
    ok = np.array([s in ("accepted", "nopeak_valid") for s in spec["status"]])
    h.valid_window_boolean_mask = ok.copy()
    h.valid_peak_boolean_mask = ok.copy()
    return h


def _reference(spec):
    """textbook estimators on floats"""
    dist = canon(spec["dist"])
    st = spec["status"]
    f = np.array([_num(x) for x in spec["peak_frq"]])
    a = np.array([_num(x) for x in spec["peak_amp"]])
    amp = np.array([[_num(x) for x in row] for row in spec["amplitude"]])
    wp = [i for i, s in enumerate(st) if s == "accepted"]
    acc = [i for i, s in enumerate(st) if s in ("accepted", "nopeak_valid")]
    t = (lambda v: np.log(v)) if dist == "lognormal" else (lambda v: v)
    back = (lambda v: np.exp(v)) if dist == "lognormal" else (lambda v: v)
    out = {}
    if len(wp) >= 2:
        for nm, v in (("frequency", f[wp]), ("amplitude", a[wp])):
            x = t(v)
            out[f"mean_fn_{nm}"] = back(np.mean(x))
            out[f"std_fn_{nm}"] = np.std(x, ddof=1)
            for n in (1, -1, 2):
                out[f"nth_std_fn_{nm}:{n}"] = back(np.mean(x) + n * np.std(x, ddof=1))
        out["cov_fn"] = np.cov(t(f[wp]), t(a[wp]), ddof=1)
    if acc:
        out["mean_curve"] = back(np.mean(t(amp[acc]), axis=0))
    if len(acc) >= 2:
        out["std_curve"] = np.std(t(amp[acc]), axis=0, ddof=1)
        out["nth_std_curve"] = back(np.mean(t(amp[acc]), axis=0) - np.std(t(amp[acc]), axis=0, ddof=1))
    return out


def _library(h, dist):
    out = {}
    for nm in ("frequency", "amplitude"):
        out[f"mean_fn_{nm}"] = lambda nm=nm: getattr(h, f"mean_fn_{nm}")(dist)
        out[f"std_fn_{nm}"] = lambda nm=nm: getattr(h, f"std_fn_{nm}")(dist)
        for n in (1, -1, 2):
            out[f"nth_std_fn_{nm}:{n}"] = lambda nm=nm, n=n: getattr(h, f"nth_std_fn_{nm}")(n, dist)
    out["cov_fn"] = lambda: h.cov_fn(dist)
    out["mean_curve"] = lambda: h.mean_curve(dist)
    out["std_curve"] = lambda: h.std_curve(dist)
    out["nth_std_curve"] = lambda: h.nth_std_curve(-1, dist)
    return out


def _compare(spec, only=None):
    h = _concrete(spec)
    ref = _reference(spec)
    lib = _library(h, spec["dist"])
    diffs = []
    for k, want in ref.items():
        if only and not k.startswith(only):
            continue
        try:
            got = lib[k]()
        except Exception as e:   # noqa
            diffs.append((k, f"raised {type(e).__name__}: {e}"))
            continue
        if not np.allclose(np.asarray(got, dtype=float), np.asarray(want, dtype=float), rtol=1e-9, atol=1e-12, equal_nan=False):
            diffs.append((k, f"library {np.asarray(got).tolist()} vs estimator {np.asarray(want).tolist()}"))
    return diffs


def replay(spec):
    if spec["what"] in ("reciprocal-mean", "reciprocal-std", "symmetry", "frame", "invariant"):
        diffs = _compare(spec)
    else:
        diffs = _compare(spec, only=spec["what"].split(":")[0]) or []
    if not diffs:
        return {"reproduced": False, "detail": "library agrees with the textbook estimator on this state"}
    k, d = diffs[0]
    alias = spec["dist"] == "log-normal"
    nanvalid = "nopeak_valid" in spec["status"]
    if alias and all(x[0].startswith(("std_", "nth_std")) for x in diffs):
        key = "std-with-log-normal-alias"
    elif nanvalid and all(x[0] == "cov_fn" for x in diffs):
        key = "cov-with-peakless-window-under-true-mask"
    else:
        key = "estimator-mismatch:" + k.split(":")[0]
    return {"reproduced": True, "key": key, "detail": f"{spec['dist']} status={spec['status']}: {k}: {d}"[:400]}


def validate(spec):
    """engine's returned terms evaluated at the witness (true exp/log/sqrt) == unshimmed library on the witness"""
    h = _concrete(spec)
    lib = _library(h, spec["dist"])
    for k, want in spec.get("expect", {}).items():
        got = np.asarray(lib[k](), dtype=float)
        want = np.asarray([_num(x) for x in want] if isinstance(want, list) else _num(want), dtype=float)
        if not np.allclose(got, want, rtol=1e-9, atol=1e-12, equal_nan=True):
            return {"ok": False, "detail": f"{k}: engine {want.tolist()} library {got.tolist()} on {spec['status']} {spec['dist']}"}
    return {"ok": True}
