"""C15 - settings round-trip through files and are independent of one another.

CrossHair (z3 per path) over histories of the real settings classes: construct / mutate in place or by assignment / construct
again (class indices, attribute kind and value are symbolic) - no object other than the one named by an operation changes and
freshly constructed objects have the pristine defaults; save + load (directly or through the type-dispatching reader, on
in-memory files with the real json) gives an object of the same class with content-equal attributes, for every registered
method alias.  SYMX: process() with the reloaded settings returns the same terms as with the original.
"""
import json

import numpy as np
import z3

from symx.core import Sym, Ctx, symarray, qval
from symx.report import fl, concretiser
from symx.xh import crosshair_obligation, replay_counterexample, real_hvsrpy
from harness import pipeline as PP
from harness import C01

FUNCTIONS_Q = ["settings.Settings.attr_dict", "settings.Settings.save", "settings.Settings.load", "settings.PreProcessingSettings.__init__",
               "settings.PsdPreProcessingSettings.__init__", "settings.PsdProcessingSettings.__init__", "settings.HvsrProcessingSettings.__init__",
               "settings.HvsrTraditionalRotDppProcessingSettings.__init__", "settings.HvsrAzimuthalProcessingSettings.__init__",
               "object_io.read_settings_object_from_file", "object_io.write_settings_object_to_file"]
STUBS = ["CrossHair: open() of hvsrpy.settings / hvsrpy.object_io -> in-memory files (the real json.dump / json.load run on them)",
         "hvsrpy.settings is re-imported outside tracing at the start of every CrossHair execution (the state under test is module-level)"]
ASSUMPTIONS = ["json number text round-trips floats exactly (CPython repr/float)", "CrossHair 'Confirmed over all paths' within its per-condition time budget; anything else is reported as inconclusive"]
OUTSIDE = ["histories longer than 3 operations", "attribute values other than the numeric ones mutated here"]
BOUNDS = {"quick": {"operations": "3 (construct, mutate, construct) and 5 (two mutations)", "classes": 8, "mutation_kinds": 6}, "thorough": {"operations": "3-5", "classes": 8, "mutation_kinds": 6}}
INSTANCE_TIMEOUT = {"quick": 280, "thorough": 900}
KINDS = ["window_type_and_width (in place)", "filter_corner_frequencies_in_hz (in place)", "smoothing['center_frequencies_in_hz'] (in place)",
         "smoothing['bandwidth'] (dict item)", "azimuths_in_degrees (in place)", "window_type_and_width (assignment)"]


def functions_encoded():
    return PP.PL(floor=4, key="exact").functions_encoded([q for q in FUNCTIONS_Q if q.startswith("settings.")])


def instances(tier):
    t = 280 if tier == "quick" else 900
    out = []
    has = {0: range(1, 8), 1: (0, 1), 2: range(2, 8), 3: range(2, 8), 4: (5, 6), 5: range(1, 8)}     # classes that own the attribute a kind mutates
    for c1 in range(8):
        for kind in ((0, 1, 2, 4) if tier == "quick" else range(6)):
            if c1 not in has[kind]:
                continue
            out.append({"name": f"crosshair_history_c{c1}_k{kind}", "func": "run_xh", "timeout": t,
                        "kwargs": {"func": "history_env", "twin": "history_env_reach" if (c1, kind) in ((3, 0), (6, 4)) else None, "env": {"XH_C1": str(c1), "XH_KIND": str(kind)}}})
        out.append({"name": f"crosshair_roundtrip_after_read_c{c1}", "func": "run_xh", "timeout": t,
                    "kwargs": {"func": "roundtrip_after_read", "twin": None, "env": {"XH_C1": str(c1)}}})
        out.append({"name": f"crosshair_load_into_used_c{c1}", "func": "run_xh", "timeout": t,
                    "kwargs": {"func": "load_into_used", "twin": None, "env": {"XH_C1": str(c1)}}})
        out.append({"name": f"crosshair_roundtrip_c{c1}", "func": "run_xh", "timeout": t,
                    "kwargs": {"func": "roundtrip_env", "twin": "roundtrip_reach" if c1 == 4 else None, "env": {"XH_C1": str(c1)}}})
    if tier == "thorough":
        out += [{"name": f"crosshair_{f}", "func": "run_xh", "kwargs": {"func": f, "twin": None}, "timeout": t} for f in ("history", "two_mutations", "roundtrip")]
    out.append({"name": "process_with_reloaded_settings", "func": "run_process_equal", "kwargs": {}})
    return out


def run_xh(rep, tier, func, twin, env=None):
    crosshair_obligation(rep, "xhair/C15_settings.py", func, twin=twin, timeout_s=90 if tier == "quick" else 240, key=f"settings:{func}", extra_env=env)


def run_process_equal(rep, tier):
    """content-equal settings give the same processing result (terms), for each processing settings class"""
    Ld = PP.PL(floor=4, key="exact")
    P, S = Ld["processing"], Ld["settings"]
    fcs, bws = C01.CFG[4]
    base = dict(window_type_and_width=["tukey", 0.25], smoothing=dict(operator="log_triangular", bandwidth=bws["log_triangular"], center_frequencies_in_hz=np.array(fcs)))
    makers = {
        "HvsrTraditionalProcessingSettings": lambda: S.HvsrTraditionalProcessingSettings(method_to_combine_horizontals="squared_average", **base),
        "HvsrTraditionalSingleAzimuthProcessingSettings": lambda: S.HvsrTraditionalSingleAzimuthProcessingSettings(azimuth_in_degrees=35.0, **base),
        "HvsrTraditionalRotDppProcessingSettings": lambda: S.HvsrTraditionalRotDppProcessingSettings(azimuths_in_degrees=np.array([0.0, 45.0]), ppth_percentile_for_rotdpp_computation=40.0, **base),
        "HvsrAzimuthalProcessingSettings": lambda: S.HvsrAzimuthalProcessingSettings(azimuths_in_degrees=np.array([0.0, 45.0]), **base),
        "HvsrDiffuseFieldProcessingSettings": lambda: S.HvsrDiffuseFieldProcessingSettings(**base),
    }
    for cname, mk in makers.items():
        def run(ctx, mk=mk, cname=cname):
            s = PP.samples("r", 3, ctx)
            st = mk()
            text = json.dumps(st.attr_dict)
            st2 = getattr(S, cname)()
            for k, v in json.loads(text).items():      # what Settings.load does with the file content
                setattr(st2, k, v)
            a = C01.process(P, [PP.mkrec(Ld, ctx, "r", 3, 0.5, comps=s)], st)
            b = C01.process(P, [PP.mkrec(Ld, ctx, "r", 3, 0.5, comps=s)], st2)
            cells = lambda r: [x for h in (r.hvsrs if hasattr(r, "hvsrs") else [r]) for x in np.asarray(h.amplitude, dtype=object).flat]
            return s, cells(a), cells(b)

        for ctx, (s, a, b) in rep.explore(run, max_paths=60, timeout_ms=4000):
            bad = [Sym.lift(x) != Sym.lift(y) for x, y in zip(a, b)] + [z3.BoolVal(len(a) != len(b))]
            rep.prove(ctx, f"{cname}: processing with the reloaded settings gives the same result", bad,
                      witness=lambda m, cname=cname: {"kind": "process_equal", "cls": cname, "records": [{c: [concretiser(m)(v) for v in s[c]] for c in ("ns", "ew", "vt")}]},
                      key=f"reloaded-settings-differ:{cname}", timeout_ms=20000)
            rep.sample({"class": cname})


# ----------------------------------------------------------------------------- concrete side
def replay(spec):
    if spec["kind"] == "crosshair":
        r = replay_counterexample(spec)
        args = eval("(" + spec["args"] + ",)")
        if spec["func"] in ("history", "two_mutations", "history_env"):
            kind = args[2] if spec["func"] == "history" else (args[1] if spec["func"] == "two_mutations" else int(spec.get("env", {}).get("XH_KIND", 0)))
            r["key"] = "shared-default:" + KINDS[kind].split(" ")[0]
            r["detail"] = f"{spec['func']}{args}: mutating {KINDS[kind]} of one settings object changes another object / later defaults"
        elif spec["func"] == "roundtrip_after_read":
            r["key"] = "stale-content-saved-after-in-place-change"
            r["detail"] = f"roundtrip_after_read{args} with class index {spec.get('env', {}).get('XH_C1')}: the file written after an in-place change does not hold the current content ({KINDS[args[0]]})"
        elif spec["func"] == "load_into_used":
            r["key"] = "load-keeps-target-state"
            r["detail"] = f"load_into_used{args} with class index {spec.get('env', {}).get('XH_C1')}: after load() the object is not the saved content (state of the target object survives)"
        elif spec["func"] == "roundtrip_env":
            r["key"] = "reader-dispatch" if args[1] else "settings-roundtrip"
            r["detail"] = f"roundtrip_env{args} with class index {spec.get('env', {}).get('XH_C1')}: class or attribute content differs after save/load"
        elif spec["func"] == "roundtrip":
            import importlib, sys
            sys.path.insert(0, "/verif")
            mod = importlib.import_module("xhair.C15_settings") if False else None
            r["key"] = "reader-dispatch" if args[3] else "settings-roundtrip"
            r["detail"] = f"roundtrip{args}: class index {args[0]}, method alias index {args[1]}, via_reader={args[3]}: class or attribute content differs after save/load"
        return r
    if spec["kind"] == "process_equal":
        import tempfile, os
        real_hvsrpy()
        hv, P, T, saved = C01._patched({"nfft": 4, "taper": {}})
        try:
            fcs, bws = C01.CFG[4]
            base = dict(window_type_and_width=["tukey", 0.25], smoothing=dict(operator="log_triangular", bandwidth=bws["log_triangular"], center_frequencies_in_hz=np.array(fcs)))
            mk = {"HvsrTraditionalProcessingSettings": lambda: hv.HvsrTraditionalProcessingSettings(method_to_combine_horizontals="squared_average", **base),
                  "HvsrTraditionalSingleAzimuthProcessingSettings": lambda: hv.HvsrTraditionalSingleAzimuthProcessingSettings(azimuth_in_degrees=35.0, **base),
                  "HvsrTraditionalRotDppProcessingSettings": lambda: hv.HvsrTraditionalRotDppProcessingSettings(azimuths_in_degrees=np.array([0.0, 45.0]), ppth_percentile_for_rotdpp_computation=40.0, **base),
                  "HvsrAzimuthalProcessingSettings": lambda: hv.HvsrAzimuthalProcessingSettings(azimuths_in_degrees=np.array([0.0, 45.0]), **base),
                  "HvsrDiffuseFieldProcessingSettings": lambda: hv.HvsrDiffuseFieldProcessingSettings(**base)}[spec["cls"]]
            st = mk()
            p = tempfile.mktemp(suffix=".json")
            st.save(p)
            st2 = hv.read_settings_object_from_file(p)
            os.remove(p)
            rec = lambda: hv.SeismicRecording3C(*[hv.TimeSeries(np.array(spec["records"][0][c], dtype=float) + 0.1 * (i + 1), 0.5) for i, c in enumerate(("ns", "ew", "vt"))])
            cells = lambda r: np.concatenate([np.asarray(h.amplitude, dtype=float).ravel() for h in (r.hvsrs if hasattr(r, "hvsrs") else [r])])
            a, b = cells(hv.process([rec()], st)), cells(hv.process([rec()], st2))
            return {"reproduced": not np.array_equal(a, b, equal_nan=True), "key": f"reloaded-settings-differ:{spec['cls']}", "detail": f"{a.tolist()} vs {b.tolist()}"}
        finally:
            C01._restore(P, T, saved)
    return {"reproduced": False, "detail": "unknown"}


def validate(spec):
    return {"ok": True, "skipped": True}
