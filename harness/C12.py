"""C12 - HVSR results survive a write/read round trip after any history.

SYMX with I/O capture: the real write_hvsr_object_to_file / read_hvsr_object_from_file run on result objects with symbolic
curves whose state was reached by a solver-forked history of range updates, FDWRA and manual mask writes; np.savetxt /
open().readlines() / np.loadtxt are replaced by a value-preserving capture of (array, header) (json is the real module).
After the round trip: same frequencies, same curve terms per azimuth in the same order, same masks, same search range, same
peaks, therefore the same value of every statistic (checked as term equalities), and the two derived columns of the file must be
the written object's mean curve and its standard deviation for the requested distribution.
The header text -> azimuth grouping is decided separately with z3's string/regex theory on the pattern parsed from
hvsrpy/regex.py: for every azimuth printed as digits.digits the reader's search recovers exactly that numeral.
"""
import json

import numpy as np
import z3

from symx import loader
from symx.core import Sym, Ctx, symarray, qval, is_nan, OutsideClaim
from symx.report import shaped_model, fl, concretiser, real_witness

FUNCTIONS_Q = ["object_io.write_hvsr_object_to_file", "object_io.read_hvsr_object_from_file", "hvsr_traditional.HvsrTraditional.update_peaks_bounded",
               "hvsr_azimuthal.HvsrAzimuthal.__init__", "hvsr_azimuthal.HvsrAzimuthal.update_peaks_bounded", "window_rejection.frequency_domain_window_rejection"]
STUBS = ["np.savetxt -> capture of (array, header); open().readlines() -> the header lines savetxt would write ('# ' prefix); np.loadtxt -> the captured array",
         "scipy.signal.find_peaks -> _local_maxima_1d transcription", "sqrt/exp/log uninterpreted"]
ASSUMPTIONS = ["'%.18e' formatting and strtod round-trip binary64 exactly (number-formatting fact, assumed, not decided)", "floats as reals"]
OUTSIDE = ["bit-for-bit text round trip of the numbers", "azimuths whose repr is not digits.digits (e.g. 1e-05) and adjacent equal azimuths: outside the writer/reader contract (flagged)",
           "more than 3 windows x 4 frequencies, 2 azimuths, 2 history steps"]
BOUNDS = {"quick": {"windows": "3 (traditional) / 2 per azimuth", "frequencies": 3, "azimuths": 2, "history_steps": "0-1"}, "thorough": {"windows": "3 / 2 per azimuth", "frequencies": 3, "azimuths": 2, "history_steps": "0-2"}}
INSTANCE_TIMEOUT = {"quick": 230, "thorough": 700}
RANGES = [(None, None), (1.5, None), (None, 2.4), (2.6, None)]
_L = None


def L():
    global _L
    if _L is None:
        _L = loader.load(["object_io", "window_rejection"])
    return _L


def functions_encoded():
    return L().functions_encoded(FUNCTIONS_Q)


def instances(tier):
    out = []
    for kind in ("traditional", "azimuthal", "diffuse_field"):
        for dist in ("lognormal", "normal"):
            for steps in ([0, 1] if tier == "quick" else [0, 1, 2]):
                if kind == "diffuse_field" and (steps > 1 or dist == "normal"):
                    continue
                out.append({"name": f"roundtrip_{kind}_{dist}_h{steps}", "func": "run_roundtrip", "kwargs": {"kind": kind, "dist": dist, "steps": steps}})
    # azimuths that are not listed in ascending order (legitimate: HvsrAzimuthal(hvsrs, [90, 30]))
    out.append({"name": "roundtrip_azimuthal_descending_azimuths", "func": "run_roundtrip", "kwargs": {"kind": "azimuthal", "dist": "lognormal", "steps": 1, "azimuths": [90.0, 30.0]}})
    # a search range set on the object, then the rejection algorithm run with its default range (it searches the peaks again)
    for kind in ("azimuthal", "traditional"):
        for r in (0, 1, 2):
            out.append({"name": f"roundtrip_{kind}_range{r}_then_fdwra_default_range", "func": "run_roundtrip",
                        "kwargs": {"kind": kind, "dist": "lognormal", "steps": 2, "script": [[0, r], [1]], "nf": 4}})
    out.append({"name": "azimuth_header_regex", "func": "run_regex", "kwargs": {}})
    return out


class Capture:
    def __init__(self):
        self.files = {}

    def savetxt(self, fname, array, delimiter=" ", header="", encoding=None, **kw):
        self.files[fname] = (np.array(array, dtype=object, copy=True), header)

    def loadtxt(self, fname, comments="#", delimiter=None, **kw):
        return np.array(self.files[fname][0], dtype=object, copy=True)

    def open(self, fname, mode="r"):
        cap = self

        class F:
            def __enter__(s):
                return s

            def __exit__(s, *a):
                return False

            def readlines(s):
                return ["# " + l + "\n" for l in cap.files[fname][1].split("\n")] + ["0\n"]
        return F()


def build(ctx, kind, nw, nf, azimuths=None):
    Ld = L()
    HT = Ld["hvsr_traditional"].HvsrTraditional
    HA = Ld["hvsr_azimuthal"].HvsrAzimuthal
    HD = Ld["hvsr_diffuse_field"].HvsrDiffuseField
    frq = np.arange(1.0, nf + 1)
    if kind == "traditional":
        amp = [symarray("a", (nw, nf), ctx, pos="exp")]
        return HT(frq, amp[0], meta={"processing_method": "traditional", "note": "t"}), amp
    if kind == "azimuthal":
        amp = [symarray(f"a{k}", (nw, nf), ctx, pos="exp") for k in range(2)]
        return HA([HT(frq, a) for a in amp], list(azimuths or [0.0, 67.5]), meta={"processing_method": "azimuthal"}), amp
    amp = [symarray("a", (1, nf), ctx, pos="exp")]
    return HD(frq, amp[0][0], meta={"processing_method": "diffuse_field"}), amp


def inner(h):
    return h.hvsrs if hasattr(h, "hvsrs") else [h]


def step(ctx, h, kind, k, script=None):
    """one history step chosen by the solver-independent fork (or prescribed by `script`)"""
    WR = L()["window_rejection"]
    choice = ctx.choose(3 if kind != "diffuse_field" else 1, tag=f"step{k}") if script is None else script[k][0]
    if choice == 0:
        r = RANGES[1 + (ctx.choose(3, tag=f"rng{k}") if script is None else script[k][1])]
        h.update_peaks_bounded(search_range_in_hz=r)
        return f"range{r}"
    if choice == 1:
        try:
            WR.frequency_domain_window_rejection(h, n=1.0, max_iterations=2)
        except ValueError:
            raise OutsideClaim("FDWRA not applicable in this state")
        return "fdwra"
    i = ctx.choose(len(inner(h)[0].valid_window_boolean_mask), tag=f"man{k}")
    for hh in inner(h):
        hh.valid_window_boolean_mask[i] = False
        hh.valid_peak_boolean_mask[i] = False
    return f"manual-reject-{i}"


def state_of(h, kind):
    if kind == "diffuse_field":
        return {"sr": h._search_range_in_hz, "peaks": [(h.peak_frequency, h.peak_amplitude)], "masks": []}
    return {"sr": inner(h)[0]._search_range_in_hz, "peaks": [(list(x._main_peak_frq), list(x._main_peak_amp)) for x in inner(h)],
            "masks": [(x.valid_window_boolean_mask.tolist(), x.valid_peak_boolean_mask.tolist()) for x in inner(h)]}


def same_value(a, b):
    if is_nan(a) or is_nan(b):
        return is_nan(a) and is_nan(b)
    if a is None or b is None:
        return a is None and b is None
    if isinstance(a, Sym) or isinstance(b, Sym):
        return None        # needs a query
    return float(a) == float(b)


def run_roundtrip(rep, tier, kind, dist, steps, azimuths=None, script=None, nf=None):
    Ld = L()
    IO = Ld["object_io"]
    nw, nf0 = (3, 3) if kind == "traditional" else (2, 3)
    nf = nf or nf0

    def run(ctx):
        h, amps = build(ctx, kind, nw, nf, azimuths)
        hist = [step(ctx, h, kind, k, script) for k in range(steps)]
        if kind != "diffuse_field" and any(int(np.sum(x.valid_window_boolean_mask)) < 2 for x in inner(h)):
            raise OutsideClaim("fewer than two accepted windows")
        cap = Capture()
        IO.open = cap.open
        Ld.np.savetxt, Ld.np.loadtxt = cap.savetxt, cap.loadtxt
        try:
            IO.write_hvsr_object_to_file(h, "f.hv", distribution_mc=dist)
            g = IO.read_hvsr_object_from_file("f.hv")
        finally:
            del IO.open
            del Ld.np.savetxt, Ld.np.loadtxt
        stats = {}
        if kind != "diffuse_field":
            for nm in ("mean_fn_frequency", "std_fn_frequency", "mean_fn_amplitude", "std_fn_amplitude"):
                try:
                    stats[nm] = (getattr(h, nm)(dist), getattr(g, nm)(dist))
                except (ValueError, ZeroDivisionError):
                    pass
            mc, sc = h.mean_curve(dist), h.std_curve(dist)
        else:
            mc = sc = None
        return h, g, amps, hist, cap.files["f.hv"], stats, mc, sc

    for ctx, (h, g, amps, hist, (arr, header), stats, mc, sc) in rep.explore(run, max_paths=1200 if tier == "quick" else 8000, timeout_ms=6000):
        def W(m):
            val = concretiser(m)
            return {"kind": "roundtrip", "obj": kind, "dist": dist, "history": hist, "azimuths": azimuths, "amplitude": [[[val(x) for x in row] for row in a] for a in amps]}
        # structure
        sa, sb = state_of(h, kind), state_of(g, kind)
        ok = type(h) is type(g) and list(map(float, h.frequency)) == list(map(float, g.frequency)) and sa["masks"] == sb["masks"] \
            and tuple(sa["sr"]) == tuple(sb["sr"]) and len(inner(h)) == len(inner(g))
        if kind == "azimuthal":
            ok = ok and list(h.azimuths) == list(g.azimuths)
        rep.obligations += 1
        if ok:
            rep.discharged += 1
        else:
            r, m = shaped_model(ctx)
            rep.candidate(W(m), f"{kind} after {hist}: type / frequencies / masks / search range / azimuths differ after the round trip ({sa['masks']} {sa['sr']} vs {sb['masks']} {sb['sr']})"[:300], key="state-differs")
            continue
        bad = []
        for x, y in zip(inner(h), inner(g)):
            A, B = np.atleast_2d(np.asarray(x.amplitude, dtype=object)), np.atleast_2d(np.asarray(y.amplitude, dtype=object))
            bad += [z3.BoolVal(True)] if A.shape != B.shape else [Sym.lift(p) != Sym.lift(q) for p, q in zip(A.flat, B.flat)]
        rep.prove(ctx, f"{kind} after {hist}: every curve of every azimuth is restored in place", bad, witness=W, key="curves-differ")
        bad = []
        for (pf, pa), (qf, qa) in zip(sa["peaks"], sb["peaks"]):
            for p, q in zip((pf if isinstance(pf, list) else [pf]) + (pa if isinstance(pa, list) else [pa]), (qf if isinstance(qf, list) else [qf]) + (qa if isinstance(qa, list) else [qa])):
                sv = same_value(p, q)
                bad.append(z3.BoolVal(not sv) if sv is not None else Sym.lift(p) != Sym.lift(q))
        rep.prove(ctx, f"{kind} after {hist}: peaks are restored", bad, witness=W, key="peaks-differ")
        for nm, (u, v) in stats.items():
            rep.prove(ctx, f"{kind} after {hist}: {nm} has the same value after the round trip", Sym.lift(u) != Sym.lift(v), witness=W, key="statistic-differs")
        if mc is not None:
            r1 = rep.prove(ctx, f"{kind} after {hist}: the mean-curve column of the file is the written object's mean curve ({dist})",
                           [Sym.lift(arr[j, -2]) != Sym.lift(mc[j]) for j in range(len(mc))], witness=W, key=f"derived-columns:{kind}", real=True)
            if r1 == "unsat":
                rep.prove(ctx, f"{kind} after {hist}: the std column of the file is the written object's mean-curve standard deviation ({dist})",
                          [Sym.lift(arr[j, -1]) != Sym.lift(sc[j]) for j in range(len(sc))], witness=W, key=f"derived-columns:{kind}", real=True)
            # column layout: curve c of azimuth a is column 1 + sum_{a'<a} n_curves(a') + c
            col = 1
            bad = []
            for x in inner(h):
                for c in range(x.n_curves):
                    bad += [Sym.lift(arr[j, col]) != Sym.lift(x.amplitude[c, j]) for j in range(len(x.frequency))]
                    col += 1
            rep.prove(ctx, f"{kind}: column layout of the file", bad + [z3.BoolVal(col != arr.shape[1] - 2)], witness=W, key="column-layout")
        rep.sample({"object": kind, "history": hist, "masks": sa["masks"], "search_range": list(sa["sr"])})


def run_regex(rep, tier):
    """the reader's azimuth pattern recovers the numeral the writer's f-string printed (z3 strings + regex)."""
    from smt import regex2z3 as R
    P = R.load_patterns()
    alts, parsed = R.top_level_alternatives(P.azimuth_expr)
    x, n, g, rest = z3.String("x"), z3.String("n"), z3.String("g"), z3.String("rest")
    hdr = z3.Concat(z3.StringVal("azimuth "), x, z3.StringVal(" deg | hvsr curve "), n)
    num = z3.Concat(R.DIGITS, z3.Re("."), R.DIGITS)
    maxlen = 8 if tier == "quick" else 12
    base = [z3.InRe(x, num), z3.InRe(n, R.DIGITS), z3.Length(x) <= maxlen, z3.Length(n) <= 3]
    rep.paths += 1
    rep.completed += 1
    import time
    for label, extra in (
        ("the first alternative of the azimuth pattern matches the writer's header at its start (so re.search returns it)", None),
        ("the captured group is exactly the printed azimuth numeral", "group"),
    ):
        s = z3.Solver()
        s.set("timeout", 60000)
        s.add(*base)
        if extra is None:
            s.add(z3.Not(z3.InRe(hdr, z3.Concat(alts[0], R.FULL))))
        else:
            terms, cons = R.sequence_with_group(parsed[0], g)
            s.add(*cons)
            s.add(z3.Concat(*terms, rest) == hdr, g != x)
        t0 = time.time()
        r = s.check()
        rep.solver_ms += (time.time() - t0) * 1000
        rep.obligations += 1
        if r == z3.unsat:
            rep.discharged += 1
        elif r == z3.sat:
            md = s.model()
            rep.candidate({"kind": "regex", "azimuth_text": md.eval(x).as_string(), "curve": md.eval(n).as_string()}, f"{label}: fails for azimuth text {md.eval(x)}", key="azimuth-regex")
        else:
            rep.inconclusive.append(f"{label}: unknown")
    # reachability: the set of writer headers is not empty
    s = z3.Solver()
    s.add(*base)
    rep.obligations += 1
    if s.check() == z3.sat:
        rep.discharged += 1
        rep.reach_ok += 1
    rep.sample({"pattern": P.azimuth_expr, "azimuth_text_up_to": maxlen})
    rep.notes.append("azimuths whose repr is not digits.digits (1e-05, 1e+16) are outside the writer/reader contract")


# ----------------------------------------------------------------------------- concrete side
def replay(spec):
    import hvsrpy, tempfile, os
    from hvsrpy import window_rejection as WR
    if spec["kind"] == "regex":
        from hvsrpy.regex import azimuth_exec
        hdr = f"azimuth {spec['azimuth_text']} deg | hvsr curve {spec['curve']}"
        m = azimuth_exec.search(hdr)
        ok = m is not None and m.groups()[0] == spec["azimuth_text"]
        return {"reproduced": not ok, "key": "azimuth-regex", "detail": f"{hdr!r} -> {m.groups() if m else None}"}
    frq = np.arange(1.0, len(spec["amplitude"][0][0]) + 1)
    amps = [np.array(a, dtype=float) for a in spec["amplitude"]]
    kind, dist = spec["obj"], spec["dist"]
    if kind == "traditional":
        h = hvsrpy.HvsrTraditional(frq, amps[0], meta={"processing_method": "traditional"})
    elif kind == "azimuthal":
        h = hvsrpy.HvsrAzimuthal([hvsrpy.HvsrTraditional(frq, a) for a in amps], spec.get("azimuths") or [0.0, 67.5], meta={"processing_method": "azimuthal"})
    else:
        h = hvsrpy.HvsrDiffuseField(frq, amps[0][0], meta={"processing_method": "diffuse_field"})
    inn = lambda o: o.hvsrs if hasattr(o, "hvsrs") else [o]
    for st in spec["history"]:
        if st.startswith("range"):
            h.update_peaks_bounded(search_range_in_hz=eval(st[5:]))
        elif st == "fdwra":
            try:
                WR.frequency_domain_window_rejection(h, n=1.0, max_iterations=2)
            except ValueError:
                return {"reproduced": False, "detail": "FDWRA not applicable on the concrete witness"}
        else:
            i = int(st.rsplit("-", 1)[1])
            for x in inn(h):
                x.valid_window_boolean_mask[i] = False
                x.valid_peak_boolean_mask[i] = False
    p = tempfile.mktemp(suffix=".csv")
    try:
        if kind != "diffuse_field":
            h.mean_curve(dist), h.std_curve(dist)
    except (ZeroDivisionError, ValueError) as e:
        return {"reproduced": False, "detail": f"witness state has no statistics ({type(e).__name__}); outside the quantifier"}
    try:
        hvsrpy.write_hvsr_object_to_file(h, p, distribution_mc=dist)
        g = hvsrpy.read_hvsr_object_from_file(p)
        arr = np.loadtxt(p, delimiter=",", comments="#")
    except Exception as e:   # noqa
        return {"reproduced": True, "key": f"raises-{type(e).__name__}", "detail": f"{type(e).__name__}: {e}"[:300]}
    finally:
        if os.path.exists(p):
            os.remove(p)
    if kind != "diffuse_field":
        mc, sc = h.mean_curve(dist), h.std_curve(dist)
        if not (np.array_equal(arr[:, -2], mc) and np.array_equal(arr[:, -1], sc)):
            which = "last azimuth's" if kind == "azimuthal" and np.allclose(arr[:, -2], h.hvsrs[-1].mean_curve(dist)) else "other"
            return {"reproduced": True, "key": f"derived-columns:{kind}", "detail": f"{kind}: file mean/std columns are not the written object's ({which} values): {arr[:, -2].tolist()} vs {np.asarray(mc).tolist()}"[:400]}
        if kind == "azimuthal" and list(h.azimuths) != list(g.azimuths):
            return {"reproduced": True, "key": "state-differs", "detail": f"azimuths written {list(h.azimuths)}, read back {list(g.azimuths)}"}
        for x, y in zip(inn(h), inn(g)):
            if not (np.array_equal(x.amplitude, y.amplitude) and np.array_equal(x.valid_window_boolean_mask, y.valid_window_boolean_mask)
                    and np.array_equal(x.valid_peak_boolean_mask, y.valid_peak_boolean_mask) and np.array_equal(x._main_peak_frq, y._main_peak_frq, equal_nan=True)
                    and tuple(x._search_range_in_hz) == tuple(y._search_range_in_hz)):
                return {"reproduced": True, "key": "state-differs", "detail": f"state differs after round trip (history {spec['history']})"}
        for nm in ("mean_fn_frequency", "std_fn_frequency", "mean_fn_amplitude"):
            try:
                a, b = getattr(h, nm)(dist), getattr(g, nm)(dist)
            except Exception:
                continue
            if not (a == b or (a != a and b != b)):
                return {"reproduced": True, "key": "statistic-differs", "detail": f"{nm}: {a} vs {b}"}
    else:
        sr_h = tuple(h._search_range_in_hz) if h._search_range_in_hz is not None else None
        sr_g = tuple(g._search_range_in_hz) if g._search_range_in_hz is not None else None
        if not (np.array_equal(h.amplitude, g.amplitude) and sr_h == sr_g and (h.peak_frequency == g.peak_frequency or (h.peak_frequency != h.peak_frequency and g.peak_frequency != g.peak_frequency))):
            return {"reproduced": True, "key": "state-differs", "detail": f"diffuse field after {spec['history']}: search range written {sr_h}, read back {sr_g}; peak {h.peak_frequency} vs {g.peak_frequency}"}
    return {"reproduced": False, "detail": "round trip exact on the real library"}


def validate(spec):
    return {"ok": True, "skipped": True}
