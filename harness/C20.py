"""C20 - plots and summary tables are read-only and show the object's state (partial: what is handed to matplotlib / pandas).

The real postprocessing functions run on result objects in an arbitrary valid state (symbolic curves and peaks, solver-forked
accept / reject status per window, both distributions) with matplotlib, pandas.DataFrame and IPython.display replaced by
recorders that log every call with its array arguments.  (1) read-only: after each function - also when it raises - every curve
term, mask, peak, search range and metadata of the object and every sample of the records equals the snapshot taken before;
(2) content: one accepted-style line per accepted window and one rejected-style line per rejected window carrying that
window's curve, mean and +-1 std lines equal to mean_curve / nth_std_curve, peak markers equal to the stored peaks under the
masks, the fn band equal to nth_std_fn_frequency(-+1), the summary table rows equal to the object's statistics, and its period row
equal to the lognormal median and log-standard deviation of the reciprocal peak frequencies computed here independently.
NOT covered: how matplotlib turns those arrays into Line2D objects and pixels, 3-D surfaces, contour levels, colour bars, plot_voronoi.
"""
import copy

import numpy as np
import z3
from harness import pipeline as PP

from symx import loader
from symx.core import Sym, Ctx, symarray, qval, is_nan
from symx.report import fl, concretiser, real_witness
from harness.pipeline import sqrt_arg

FUNCTIONS_Q = ["postprocessing.plot_single_panel_hvsr_curves", "postprocessing._plot_individual_hvsr_curves", "postprocessing._plot_peak_individual_hvsr_curve",
               "postprocessing._plot_peak_mean_hvsr_curve", "postprocessing._plot_mean_hvsr_curve", "postprocessing._plot_nth_std_hvsr_curve",
               "postprocessing._plot_nth_std_frequency_range", "postprocessing.plot_pre_and_post_rejection", "postprocessing.plot_seismic_recordings_3c",
               "postprocessing.summarize_hvsr_statistics", "postprocessing._azimuthal_mesh_from_hvsr"]
STUBS = ["matplotlib (pyplot, axes, figure, cm), mpl_toolkits, pandas.DataFrame / Styler, IPython.display -> recorders logging every call and its arguments",
         "scipy.signal.find_peaks -> _local_maxima_1d transcription", "sqrt/exp/log uninterpreted"]
ASSUMPTIONS = ["'what is drawn' = the data handed to Axes.plot / Axes.fill / DataFrame; rendering is not examined", "floats as reals"]
OUTSIDE = ["matplotlib's own behaviour (Line2D objects of the returned axes, Agg rendering), 3-D surface, contour levels, colour bars, plot_voronoi, the resonance pdf contour"]
BOUNDS = {"quick": {"windows": 3, "frequencies": 3, "azimuths": 2}, "thorough": {"windows": "3-4", "frequencies": 3, "azimuths": 2}}
INSTANCE_TIMEOUT = {"quick": 230, "thorough": 900}
ACC, REJ = "#888888", "lightpink"
_L = None


def L():
    global _L
    if _L is None:
        _L = loader.load(["postprocessing"])
        _L["postprocessing"].print = lambda *a, **k: None
    return _L


def functions_encoded():
    return L().functions_encoded(FUNCTIONS_Q)


OPTIONS = {
    "default": {},
    "all": dict(plot_invalid_curves=True, plot_peak_individual_invalid_curves=True),
    "curves_only": dict(plot_mean_curve=False, plot_frequency_std=False, plot_peak_mean_curve=False, plot_peak_individual_valid_curves=False, plot_invalid_curves=True),
}


def instances(tier):
    out = []
    for kind in ("traditional", "azimuthal"):
        for opt in OPTIONS:
            for dist in ("lognormal", "normal"):
                if tier == "quick" and kind == "azimuthal" and (opt == "curves_only" or dist == "normal"):
                    continue
                out.append({"name": f"panel_{kind}_{opt}_{dist}", "func": "run_panel", "kwargs": {"kind": kind, "opt": opt, "dist": dist}})
    out.append({"name": "panel_diffuse", "func": "run_panel", "kwargs": {"kind": "diffuse", "opt": "default", "dist": "lognormal"}})
    for dist in ("lognormal", "normal"):
        out.append({"name": f"summary_traditional_{dist}", "func": "run_summary", "kwargs": {"kind": "traditional", "dist": dist}})
    out.append({"name": "summary_azimuthal_lognormal", "func": "run_summary", "kwargs": {"kind": "azimuthal", "dist": "lognormal"}})
    out.append({"name": "pre_and_post_rejection", "func": "run_prepost", "kwargs": {}})
    for kind in ("traditional", "azimuthal"):
        out.append({"name": f"panel_{kind}_replot_after_mask_change", "func": "run_panel", "kwargs": {"kind": kind, "opt": "default", "dist": "lognormal", "replot": True}})
    out.append({"name": "pre_and_post_rejection_panel_content", "func": "run_prepost_content", "kwargs": {}})
    out.append({"name": "azimuthal_mesh", "func": "run_mesh", "kwargs": {}})
    out.append({"name": "recordings_plot", "func": "run_records", "kwargs": {}})
    return out


# ----------------------------------------------------------------------------- state construction
def mk_trad(ctx, w, nf, tag=""):
    HT = L()["hvsr_traditional"].HvsrTraditional
    frq = np.arange(1.0, nf + 1)
    h = PP.shell_traditional(HT)
    h.frequency, h.n_curves, h.meta = frq, w, {"note": "m"}
    h.amplitude = symarray("a" + tag, (w, nf), ctx, pos="exp")
    h._main_peak_frq = np.empty(w, dtype=object)
    h._main_peak_amp = np.empty(w, dtype=object)
    h.valid_window_boolean_mask = np.ones(w, dtype=bool)
    h.valid_peak_boolean_mask = np.ones(w, dtype=bool)
    h._search_range_in_hz, h._find_peaks_kwargs = (None, None), {}
    status = []
    for i in range(w):
        s = ["accepted", "rejected", "nopeak"][ctx.choose(3, tag=f"st{tag}{i}")]
        status.append(s)
        if s == "nopeak":
            h._main_peak_frq[i] = h._main_peak_amp[i] = float("nan")
        else:
            h._main_peak_frq[i] = Sym.posvar(f"pf{tag}{i}", ctx)
            h._main_peak_amp[i] = Sym.posvar(f"pa{tag}{i}", ctx)
        h.valid_window_boolean_mask[i] = h.valid_peak_boolean_mask[i] = (s == "accepted")
    return h, status


def mk_obj(ctx, kind):
    if kind == "traditional":
        h, st = mk_trad(ctx, 3, 3)
        return h, [h], [st]
    if kind == "azimuthal":
        HA = L()["hvsr_azimuthal"].HvsrAzimuthal
        parts = [mk_trad(ctx, 2, 3, tag=f"z{k}_") for k in range(2)]
        az = PP.shell_azimuthal(HA, L()["hvsr_traditional"].HvsrTraditional)
        az.hvsrs, az.azimuths, az.meta = [p[0] for p in parts], [0.0, 90.0], {"note": "az"}
        return az, az.hvsrs, [p[1] for p in parts]
    HD = L()["hvsr_diffuse_field"].HvsrDiffuseField
    d = HD(np.arange(1.0, 5.0), symarray("d", (4,), ctx, pos="exp"), meta={"note": "d"})
    return d, [], []


def snapshot(obj, inner):
    snap = {"meta": copy.deepcopy(obj.meta)}
    if inner:
        snap["inner"] = [(list(h.amplitude.flat), h.amplitude, h.valid_window_boolean_mask.tolist(), h.valid_peak_boolean_mask.tolist(), list(h._main_peak_frq), list(h._main_peak_amp),
                          tuple(h._search_range_in_hz), list(h.frequency)) for h in inner]
    else:
        snap["curve"] = (list(obj.amplitude), obj.peak_frequency, obj.peak_amplitude, obj._search_range_in_hz)
    return snap


def same_snapshot(a, b):
    def eq(x, y):
        if is_nan(x) or is_nan(y):
            return is_nan(x) and is_nan(y)
        if isinstance(x, Sym) or isinstance(y, Sym):
            return x is y or (isinstance(x, Sym) and isinstance(y, Sym) and z3.eq(x.e, y.e))
        return x == y
    if a["meta"] != b["meta"]:
        return "meta"
    if "inner" in a:
        for (fa, arr_a, wa, pa, pfa, paa, sra, fra), (fb, arr_b, wb, pb, pfb, pab, srb, frb) in zip(a["inner"], b["inner"]):
            if arr_a is not arr_b or len(fa) != len(fb) or not all(eq(x, y) for x, y in zip(fa, fb)):
                return "curves"
            if wa != wb or pa != pb:
                return f"masks {wa}/{pa} -> {wb}/{pb}"
            if not all(eq(x, y) for x, y in zip(pfa + paa, pfb + pab)):
                return "peaks"
            if sra != srb or fra != frb:
                return "search range / frequency"
    else:
        if not all(eq(x, y) for x, y in zip(a["curve"][0], b["curve"][0])) or not eq(a["curve"][1], b["curve"][1]):
            return "curve"
    return None


def calls(log, name):
    return [(args, kw) for (n, args, kw, r) in log if n == name]


def state_witness(inner, status, dist, what):
    def w(m):
        val = concretiser(m)
        return {"kind": "state", "dist": dist, "what": what, "status": status, "amplitude": [[[val(x) for x in row] for row in h.amplitude] for h in inner],
                "peak_frq": [[val(x) for x in h._main_peak_frq] for h in inner], "peak_amp": [[val(x) for x in h._main_peak_amp] for h in inner]}
    return w


def terms_equal(xs, ys):
    xs, ys = list(np.atleast_1d(np.asarray(xs, dtype=object)).flat), list(np.atleast_1d(np.asarray(ys, dtype=object)).flat)
    if len(xs) != len(ys):
        return [z3.BoolVal(True)]
    out = []
    for x, y in zip(xs, ys):
        if is_nan(x) or is_nan(y):
            out.append(z3.BoolVal(not (is_nan(x) and is_nan(y))))
        else:
            out.append(Sym.lift(x) != Sym.lift(y))
    return out


def usable(status_list, kind):
    if kind == "azimuthal":
        return all(sum(1 for s in st if s == "accepted") >= 1 for st in status_list) and sum(sum(1 for s in st if s == "accepted") for st in status_list) >= 2
    return sum(1 for s in status_list[0] if s == "accepted") >= 2


def run_panel(rep, tier, kind, opt, dist, replot=False):
    PP_ = L()["postprocessing"]
    Rec = loader.AxesRecorder

    def run(ctx):
        obj, inner, status = mk_obj(ctx, kind)
        if kind != "diffuse" and not usable(status, kind):
            return None
        prior = [list(st) for st in status] if replot else None
        if replot:
            # the same live object drawn once, its accept masks changed (solver-chosen, counts may stay the same), drawn again
            try:
                PP_.plot_single_panel_hvsr_curves(obj, distribution_mc=dist, distribution_fn=dist, ax=Rec("ax0", []), **OPTIONS[opt])
            except ValueError:
                pass
            for k, (h, st) in enumerate(zip(inner, status)):
                for i, s0 in enumerate(st):
                    if s0 != "nopeak":
                        st[i] = ["accepted", "rejected"][ctx.choose(2, tag=f"re{k}_{i}")]
                        h.valid_window_boolean_mask[i] = h.valid_peak_boolean_mask[i] = (st[i] == "accepted")
            if not usable(status, kind):
                return None
        before = snapshot(obj, inner)
        log = []
        ax = Rec("ax", log)
        err = None
        try:
            PP_.plot_single_panel_hvsr_curves(obj, distribution_mc=dist, distribution_fn=dist, ax=ax, **OPTIONS[opt])
        except ValueError as e:
            err = str(e)
        after = snapshot(obj, inner)
        stats = None
        if err is None and kind != "diffuse":
            stats = {"mean": obj.mean_curve(dist), "up": obj.nth_std_curve(1, dist), "dn": obj.nth_std_curve(-1, dist),
                     "fmin": obj.nth_std_fn_frequency(-1, dist), "fmax": obj.nth_std_fn_frequency(1, dist)}
            try:
                stats["mcp"] = obj.mean_curve_peak(dist)
            except ValueError:
                stats["mcp"] = None
        return obj, inner, status, before, after, log, err, stats, prior

    for ctx, res in rep.explore(run, max_paths=400 if tier == "quick" else 3000, timeout_ms=5000):
        if res is None:
            continue
        obj, inner, status, before, after, log, err, stats, prior = res
        W0 = state_witness(inner, status, dist, f"panel:{kind}:{opt}")
        W = (lambda m, W0=W0, prior=prior: dict(W0(m), prior_status=prior)) if replot else W0
        rep.obligations += 1
        diff = same_snapshot(before, after)
        if diff is None:
            rep.discharged += 1
        else:
            r, m = ctx.model()
            rep.candidate(W(m), f"plot_single_panel_hvsr_curves changed the object ({diff})" + (f" while raising {err}" if err else ""), key="plot-modifies-object")
        if err is not None or kind == "diffuse":
            continue
        o = {**dict(plot_valid_curves=True, plot_invalid_curves=False, plot_mean_curve=True, plot_frequency_std=True, plot_peak_mean_curve=True,
                    plot_peak_individual_valid_curves=True, plot_peak_individual_invalid_curves=False), **OPTIONS[opt]}
        plots = calls(log, "ax.plot")
        for style, flag, want_valid in ((ACC, o["plot_valid_curves"], True), (REJ, o["plot_invalid_curves"], False)):
            lines = [a for a, k in plots if k.get("color") == style and k.get("linewidth") == 0.3]
            want = [h.amplitude[i] for h in inner for i in range(h.n_curves) if bool(h.valid_window_boolean_mask[i]) == want_valid] if flag else []
            ok = len(lines) == len(want) and all(len(a) == 2 and list(map(float, a[0])) == list(map(float, inner[0].frequency)) and all(x is y for x, y in zip(a[1], w_)) for a, w_ in zip(lines, want))
            rep.obligations += 1
            if ok:
                rep.discharged += 1
            else:
                r, m = ctx.model()
                rep.candidate(W(m), f"{'accepted' if want_valid else 'rejected'}-style lines: {len(lines)} drawn for {len(want)} such windows, or a line does not carry its window's curve", key="lines-vs-windows")
        if o["plot_mean_curve"]:
            black = [a for a, k in plots if k.get("color") == "black" and k.get("linewidth") == 1.3]
            bad = [z3.BoolVal(len(black) != 3)]
            if len(black) == 3:
                bad += terms_equal(black[0][1], stats["mean"]) + terms_equal(black[1][1], stats["up"]) + terms_equal(black[2][1], stats["dn"])
            rep.prove(ctx, "mean and +-1 standard deviation lines are the object's mean_curve / nth_std_curve(+-1)", bad, witness=W, key="mean-std-lines")
        if o["plot_frequency_std"]:
            fills = calls(log, "ax.fill")
            bad = [z3.BoolVal(len(fills) != 1)]
            if len(fills) == 1:
                bad += terms_equal(fills[0][0][0], [stats["fmin"], stats["fmin"], stats["fmax"], stats["fmax"]])
            rep.prove(ctx, "the fn band spans nth_std_fn_frequency(-1) .. nth_std_fn_frequency(+1)", bad, witness=W, key="fn-band")
        if o["plot_peak_mean_curve"] and stats["mcp"] is not None:
            mk = [a for a, k in plots if k.get("marker") == "D"]
            bad = [z3.BoolVal(len(mk) != 1)]
            if len(mk) == 1:
                bad += terms_equal([mk[0][0]], [stats["mcp"][0]]) + terms_equal([mk[0][1]], [stats["mcp"][1]])
            rep.prove(ctx, "the mean-curve peak marker is the object's mean_curve_peak", bad, witness=W, key="peak-mean-marker")
        for face, flag, valid in (("white", o["plot_peak_individual_valid_curves"], True), ("lightpink", o["plot_peak_individual_invalid_curves"], False)):
            if not flag:
                continue
            mk = [a for a, k in plots if k.get("marker") == "o" and k.get("markerfacecolor") == face]
            want = [(h._main_peak_frq[h.valid_peak_boolean_mask if valid else ~h.valid_peak_boolean_mask], h._main_peak_amp[h.valid_peak_boolean_mask if valid else ~h.valid_peak_boolean_mask]) for h in inner]
            want = [w_ for w_ in want if len(w_[0]) > 0]
            bad = [z3.BoolVal(len(mk) != len(want))]
            if len(mk) == len(want):
                for a, (wf, wa) in zip(mk, want):
                    bad += terms_equal(a[0], wf) + terms_equal(a[1], wa)
            rep.prove(ctx, f"{'accepted' if valid else 'rejected'} peak markers are the stored peaks under the peak mask", bad, witness=W, key="peak-markers")
        rep.sample({"object": kind, "options": opt, "status": status, "plot_calls": len(plots)})


def run_summary(rep, tier, kind, dist):
    PP_ = L()["postprocessing"]
    pd_log = L().logs["pandas"]

    def run(ctx):
        obj, inner, status = mk_obj(ctx, kind)
        if not usable(status, kind):
            return None
        before = snapshot(obj, inner)
        del pd_log[:]
        err = None
        try:
            PP_.summarize_hvsr_statistics(obj, distribution_mc=dist, distribution_fn=dist)
        except ValueError as e:
            err = str(e)
        frames = [kw for (n, a, kw, r) in pd_log if n == "pandas.DataFrame"]
        after = snapshot(obj, inner)
        return obj, inner, status, before, after, frames, err

    for ctx, res in rep.explore(run, max_paths=300, timeout_ms=5000):
        if res is None:
            continue
        obj, inner, status, before, after, frames, err = res
        W = state_witness(inner, status, dist, f"summary:{kind}")
        rep.obligations += 1
        diff = same_snapshot(before, after)
        if diff is None:
            rep.discharged += 1
        else:
            rep.candidate(W(ctx.model()[1]), f"summarize_hvsr_statistics changed the object ({diff})", key="plot-modifies-object")
        if err is not None and not frames:
            continue
        if len(frames) != 1:
            rep.obligations += 1
            rep.candidate(W(ctx.model()[1]), "summary table was not built exactly once", key="summary-table")
            continue
        data = frames[0]["data"]
        m, s_, lo, hi = obj.mean_fn_frequency(dist), obj.std_fn_frequency(dist), obj.nth_std_fn_frequency(-1, dist), obj.nth_std_fn_frequency(1, dist)
        ma, sa, loa, hia = obj.mean_fn_amplitude(dist), obj.std_fn_amplitude(dist), obj.nth_std_fn_amplitude(-1, dist), obj.nth_std_fn_amplitude(1, dist)
        rep.prove(ctx, "summary table: fn row and amplitude row list the object's statistics (mean, std, -1 std, +1 std)",
                  terms_equal(data[0], [m, s_, lo, hi]) + terms_equal(data[2], [ma, sa, loa, hia]), witness=W, key="summary-table")
        if dist == "lognormal":
            # the period row is the reciprocal view of the object's own fn statistics (for an azimuthal object: under the same azimuth weights)
            uneq = len({sum(1 for x in st if x == "accepted") for st in status}) > 1
            rep.prove(ctx, "summary table: the period row lists the reciprocal of the object's median and +-1 std fn and the same log-standard deviation" + (" (azimuths with different accepted counts)" if uneq else ""),
                      terms_equal(data[1], [1 / Sym.lift(m), s_, 1 / Sym.lift(lo), 1 / Sym.lift(hi)]), witness=W, key="summary-period-row" + (":unequal-counts" if uneq else ""), real=True)
        if dist == "lognormal" and kind == "traditional":
            # independent estimators over the reciprocal peak frequencies of the accepted windows
            h = inner[0]
            per = [1 / h._main_peak_frq[i] for i in range(h.n_curves) if h.valid_peak_boolean_mask[i]]
            logs = [p.log() for p in per]
            mu = sum(logs[1:], logs[0]) / len(logs)
            var = sum(((x - mu) * (x - mu) for x in logs[1:]), (logs[0] - mu) * (logs[0] - mu)) / (len(logs) - 1)
            arg = sqrt_arg(data[1][1])
            rep.prove(ctx, "summary table: the period row holds the lognormal median and log-standard deviation of the reciprocal peak frequencies",
                      [Sym.lift(data[1][0].log()) != mu.e, z3.BoolVal(True) if arg is None else arg != var.e], witness=W, key="summary-period-row", nlsat_first=True)
        rep.sample({"object": kind, "dist": dist, "status": status})


def run_prepost(rep, tier):
    """plot_pre_and_post_rejection overwrites both masks internally and must restore them - also when plotting raises."""
    PP_ = L()["postprocessing"]
    Ld = L()
    TS, R3 = Ld["timeseries"].TimeSeries, Ld["seismic_recording_3c"].SeismicRecording3C

    def run(ctx):
        h, status = mk_trad(ctx, 3, 3)
        if sum(1 for s in status if s == "accepted") < 2:
            return None
        sr = Sym.var("fhi", ctx, pos=True)
        h._search_range_in_hz = (None, sr)
        recs = [R3(*[TS(np.array([0.5 * (i + 1), -1.0, 0.25 * (c + 1)]), 0.5) for c in range(3)]) for i in range(3)]
        rsnap = [[list(getattr(r, c).amplitude) for c in ("ns", "ew", "vt")] for r in recs]
        before = snapshot(h, [h])
        err = None
        try:
            PP_.plot_pre_and_post_rejection(recs, h, distribution_mc="lognormal", distribution_fn="lognormal")
        except ValueError as e:
            err = str(e)
        after = snapshot(h, [h])
        rafter = [[list(getattr(r, c).amplitude) for c in ("ns", "ew", "vt")] for r in recs]
        return h, status, before, after, err, rsnap == rafter

    for ctx, res in rep.explore(run, max_paths=600 if tier == "quick" else 4000, timeout_ms=5000):
        if res is None:
            continue
        h, status, before, after, err, recs_same = res
        W = state_witness([h], [status], "lognormal", "prepost")
        rep.obligations += 1
        diff = same_snapshot(before, after)
        if diff is None and recs_same:
            rep.discharged += 1
        else:
            r, m = ctx.model()
            env = real_witness(ctx, model=m, tries=800) or m
            spec = W(env)
            spec["fhi"] = concretiser(env)(z3.Real("fhi"))
            spec["raised"] = err
            rep.candidate(spec, f"plot_pre_and_post_rejection left the object changed ({diff})" + (f" after raising '{err}'" if err else ""),
                          key="masks-not-restored-on-exception" if err else "plot-modifies-object")
        rep.sample({"status": status, "raised": err})


PRE_RANGE = (None, 3.2)      # on the grid 1..5 Hz the search covers 1-3 Hz: a maximum at 2 Hz is in, one at 4 Hz is out


def _panel_marks(entries):
    """The statistics-bearing calls of one panel: peak markers, mean-curve peak marker, fn band, mean / std lines."""
    plots = [(a, k) for (n, a, k, r) in entries if n.endswith(".plot")]
    fills = [(a, k) for (n, a, k, r) in entries if n.endswith(".fill")]
    return {"peak markers": [list(a[:2]) for a, k in plots if k.get("marker") == "o" and k.get("markerfacecolor") == "white"],
            "mean-curve peak marker": [list(a[:2]) for a, k in plots if k.get("marker") == "D"],
            "fn band": [[a[0]] for a, k in fills],
            "mean and std lines": [[a[1]] for a, k in plots if k.get("color") == "black" and k.get("linewidth") == 1.3],
            "window lines": [[a[1]] for a, k in plots if k.get("linewidth") == 0.3 and k.get("color") == ACC and len(a) == 2 and len(a[1]) == 5]}


def run_prepost_content(rep, tier):
    """The 'Before Rejection' panel shows the object itself with every window accepted: its stored peaks, its mean-curve
    peak under its own search range, its fn band - on an object whose peaks were picked under a bounded search range."""
    Ld = L()
    PP_ = Ld["postprocessing"]
    HT = Ld["hvsr_traditional"].HvsrTraditional
    TS, R3 = Ld["timeseries"].TimeSeries, Ld["seismic_recording_3c"].SeismicRecording3C
    Rec = loader.AxesRecorder
    w, nf = 3, 5      # two interior maxima possible (2 Hz and 4 Hz); the range keeps only the first
    log = Ld.logs["matplotlib"]

    def run(ctx):
        frq = np.arange(1.0, nf + 1)
        amp = symarray("a", (w, nf), ctx, pos="exp")
        for i in (1, 2):      # windows 1 and 2 have a maximum at 2 Hz (so that two windows can be accepted); window 0 is arbitrary
            ctx.assume(z3.And(z3.Real(f"ln_a_{i}_1") > z3.Real(f"ln_a_{i}_0"), z3.Real(f"ln_a_{i}_1") > z3.Real(f"ln_a_{i}_2")))
        h = HT(frq, amp, meta={"note": "m"})
        h.update_peaks_bounded(search_range_in_hz=PRE_RANGE)
        status = []
        for i in range(w):
            if is_nan(h._main_peak_frq[i]):
                status.append("nopeak")
                continue
            s = ["accepted", "rejected"][ctx.choose(2, tag=f"st{i}")]
            status.append(s)
            h.valid_window_boolean_mask[i] = h.valid_peak_boolean_mask[i] = (s == "accepted")
        if sum(1 for s in status if s == "accepted") < 2:
            return None
        recs = [R3(*[TS(np.array([0.5 * (i + 1), -1.0, 0.25 * (c + 1)]), 0.5) for c in range(3)]) for i in range(w)]
        del log[:]
        err = None
        try:
            PP_.plot_pre_and_post_rejection(recs, h, distribution_mc="lognormal", distribution_fn="lognormal")
        except ValueError as e:
            err = str(e)
        entries = list(log)
        cut = [j for j, (n, a, k, r) in enumerate(entries) if n.endswith(".set_title") and a and a[0] == "Before Rejection"]
        pre = entries[:cut[0]] if cut else None
        # the object with every window accepted, drawn by the single-panel function (whose content run_panel proves)
        ref = HT(frq, amp, meta={"note": "m"})
        ref.update_peaks_bounded(search_range_in_hz=PRE_RANGE)
        ref.valid_window_boolean_mask[:] = True
        ref.valid_peak_boolean_mask[:] = True
        rlog = []
        rerr = None
        try:
            PP_.plot_single_panel_hvsr_curves(ref, distribution_mc="lognormal", distribution_fn="lognormal", plot_peak_individual_valid_curves=True,
                                              plot_peak_mean_curve=True, ax=Rec("ax", rlog))
        except ValueError as e:
            rerr = str(e)
        return amp, status, err, rerr, pre, rlog

    for ctx, res in rep.explore(run, max_paths=1500 if tier == "quick" else 8000, timeout_ms=5000):
        if res is None:
            continue
        amp, status, err, rerr, pre, rlog = res
        rep.reachable(ctx)

        def W(m, amp=amp, status=status):
            val = concretiser(m)
            return {"kind": "state", "what": "prepost-content", "dist": "lognormal", "status": status, "range": list(PRE_RANGE), "amplitude": [[val(x) for x in row] for row in amp]}
        if err is not None or rerr is not None or pre is None:
            rep.obligations += 1
            if (err is None) == (rerr is None) and (pre is not None or err is not None):
                rep.discharged += 1
            else:
                r, m = ctx.model()
                rep.candidate(W(m), f"plot_pre_and_post_rejection raised {err!r} where drawing the object with every window accepted gives {rerr!r}", key="pre-panel-content")
            continue
        got, want = _panel_marks(pre), _panel_marks(rlog)
        # witness shaping: log-amplitudes within [-2, 2] so that the true exponentials are ordinary floats
        shape = [z3.And(z3.Real(f"ln_a_{i}_{j}") >= -2, z3.Real(f"ln_a_{i}_{j}") <= 2) for i in range(w) for j in range(nf)]
        for what in want:
            bad = [z3.BoolVal(len(got[what]) != len(want[what]))]
            if len(got[what]) == len(want[what]):
                for g, w_ in zip(got[what], want[what]):
                    for x, y in zip(g, w_):
                        bad += terms_equal(x, y)
            rep.prove(ctx, f"'Before Rejection' panel: {what} are those of the object itself (its own search range) with every window accepted", bad, witness=W, key="pre-panel-content", shape=shape)
        rep.sample({"status": status})


def run_mesh(rep, tier):
    PP_ = L()["postprocessing"]

    def run(ctx):
        obj, inner, status = mk_obj(ctx, "azimuthal")
        if not all(sum(1 for s in st if s == "accepted") >= 1 for st in status):
            return None
        before = snapshot(obj, inner)
        mesh = PP_._azimuthal_mesh_from_hvsr(obj, distribution_mc="lognormal")
        after = snapshot(obj, inner)
        want = [h.mean_curve("lognormal") for h in inner]
        return obj, inner, status, before, after, mesh, want

    for ctx, res in rep.explore(run, max_paths=200, timeout_ms=5000):
        if res is None:
            continue
        obj, inner, status, before, after, (mf, ma, amp), want = res
        W = state_witness(inner, status, "lognormal", "mesh")
        rep.obligations += 1
        if same_snapshot(before, after) is None:
            rep.discharged += 1
        else:
            rep.candidate(W(ctx.model()[1]), "_azimuthal_mesh_from_hvsr changed the object", key="plot-modifies-object")
        bad = [z3.BoolVal(amp.shape != (3, 3))]
        if amp.shape == (3, 3):
            bad += terms_equal(amp[0], want[0]) + terms_equal(amp[1], want[1]) + terms_equal(amp[2], want[0])
            bad.append(z3.BoolVal([float(x) for x in ma[:, 0]] != [0.0, 90.0, 180.0]))
        rep.prove(ctx, "azimuthal mesh rows are the per-azimuth mean curves (the 0 degree row repeated at 180)", bad, witness=W, key="azimuthal-mesh")


def run_records(rep, tier):
    PP_ = L()["postprocessing"]
    Ld = L()
    TS, R3 = Ld["timeseries"].TimeSeries, Ld["seismic_recording_3c"].SeismicRecording3C
    Rec = loader.Recorder

    def run(ctx):
        ss = [{c: symarray(f"r{i}_{c}", (2,), ctx) for c in ("ns", "ew", "vt")} for i in range(2)]
        recs = [R3(*[TS(s[c], 0.5) for c in ("ns", "ew", "vt")]) for s in ss]
        held = [[getattr(r, c).amplitude for c in ("ns", "ew", "vt")] for r in recs]
        snap = [[list(a) for a in row] for row in held]
        log = []
        axs = [Rec(f"ax{k}", log) for k in range(3)]
        mask_choice = [bool(ctx.choose(2, tag=f"m{i}") == 0) for i in range(2)]
        PP_.plot_seismic_recordings_3c(recs, valid_window_boolean_mask=mask_choice, axs=axs, normalize=False)
        same = all(getattr(r, c).amplitude is held[i][j] and all(x is y for x, y in zip(getattr(r, c).amplitude, snap[i][j])) for i, r in enumerate(recs) for j, c in enumerate(("ns", "ew", "vt")))
        return ss, mask_choice, log, same

    for ctx, (ss, mask_choice, log, same) in rep.explore(run, max_paths=50):
        rep.obligations += 2
        if same:
            rep.discharged += 1
        else:
            rep.candidate({"kind": "records"}, "plot_seismic_recordings_3c changed the samples of the recordings", key="plot-modifies-records")
        ok = True
        for k, c in enumerate(("ns", "ew", "vt")):
            lines = [(a, kw) for (n, a, kw, r) in log if n == f"ax{k}.plot"]
            ok &= len(lines) == 2 and all(kw.get("color") == (ACC if mask_choice[i] else REJ) for i, (a, kw) in enumerate(lines))
            ok &= all(all(z3.eq(z3.simplify(Sym.lift(x)), z3.simplify(Sym.lift(y))) for x, y in zip(a[1], ss[i][c])) for i, (a, kw) in enumerate(lines)) if len(lines) == 2 else False
        if ok:
            rep.discharged += 1
        else:
            rep.candidate({"kind": "records"}, "recording plot: window i is not drawn once per component with its own samples and accept / reject colour", key="records-lines")


# ----------------------------------------------------------------------------- concrete side
def _num(x):
    return float("nan") if x == "nan" else float(x)


def _mk_real(spec, idx=0):
    import hvsrpy
    amp = np.array([[_num(x) for x in row] for row in spec["amplitude"][idx]])
    h = hvsrpy.HvsrTraditional(np.arange(1.0, amp.shape[1] + 1), amp, meta={"note": "m"})
    h._main_peak_frq = np.array([_num(x) for x in spec["peak_frq"][idx]])
    h._main_peak_amp = np.array([_num(x) for x in spec["peak_amp"][idx]])
    ok = np.array([s == "accepted" for s in spec["status"][idx]])
    h.valid_window_boolean_mask, h.valid_peak_boolean_mask = ok.copy(), ok.copy()
    return h


def replay(spec):
    import matplotlib
    matplotlib.use("Agg")
    import matplotlib.pyplot as plt
    import hvsrpy
    if spec.get("kind") == "records":
        return {"reproduced": False, "detail": "structural obligation (no concrete replay)"}
    what = spec["what"]
    if what == "prepost-content":
        amp = np.array([[_num(x) for x in row] for row in spec["amplitude"]])
        frq = np.arange(1.0, amp.shape[1] + 1)
        rng = tuple(spec["range"])

        def mk():
            o = hvsrpy.HvsrTraditional(frq, amp, meta={"note": "m"})
            o.update_peaks_bounded(search_range_in_hz=rng)
            return o
        h, ref = mk(), mk()
        ref.valid_window_boolean_mask[:] = True
        ref.valid_peak_boolean_mask[:] = True
        for i, st in enumerate(spec["status"]):
            if st == "rejected":
                h.valid_window_boolean_mask[i] = h.valid_peak_boolean_mask[i] = False
        recs = [hvsrpy.SeismicRecording3C(*[hvsrpy.TimeSeries(np.array([0.5 * (i + 1), -1.0, 0.25 * (c + 1)]), 0.5) for c in range(3)]) for i in range(len(amp))]

        def marks(ax):
            o = [(l.get_xdata(), l.get_ydata()) for l in ax.get_lines() if l.get_marker() == "o" and l.get_markerfacecolor() == "white"]
            d = [(l.get_xdata(), l.get_ydata()) for l in ax.get_lines() if l.get_marker() == "D"]
            return o, d
        try:
            fig, axs = hvsrpy.plot_pre_and_post_rejection(recs, h)
            pre = [a for a in fig.axes if a.get_title() == "Before Rejection"][0]
            got = marks(pre)
            fig2, ax2 = plt.subplots()
            hvsrpy.plot_single_panel_hvsr_curves(ref, plot_peak_individual_valid_curves=True, plot_peak_mean_curve=True, ax=ax2)
            want = marks(ax2)
        except Exception as e:   # noqa
            plt.close("all")
            return {"reproduced": False, "detail": f"raised {type(e).__name__}: {e}"}
        plt.close("all")

        def same(a, b):
            return len(a) == len(b) and all(np.allclose(np.asarray(x[0], float), np.asarray(y[0], float), equal_nan=True, rtol=1e-9, atol=0) and
                                            np.allclose(np.asarray(x[1], float), np.asarray(y[1], float), equal_nan=True, rtol=1e-9, atol=0) for x, y in zip(a, b))
        ok = same(got[0], want[0]) and same(got[1], want[1])
        return {"reproduced": not ok, "key": "pre-panel-content",
                "detail": f"'Before Rejection' markers {[(np.asarray(x).tolist(), np.asarray(y).tolist()) for x, y in got[0] + got[1]]} vs the object's own with every window accepted {[(np.asarray(x).tolist(), np.asarray(y).tolist()) for x, y in want[0] + want[1]]}"}
    if what == "prepost":
        h = _mk_real(spec)
        h._search_range_in_hz = (None, spec.get("fhi"))
        recs = [hvsrpy.SeismicRecording3C(*[hvsrpy.TimeSeries(np.array([0.5 * (i + 1), -1.0, 0.25 * (c + 1)]), 0.5) for c in range(3)]) for i in range(3)]
        wm, pm = h.valid_window_boolean_mask.copy(), h.valid_peak_boolean_mask.copy()
        err = None
        try:
            hvsrpy.plot_pre_and_post_rejection(recs, h)
        except Exception as e:   # noqa
            err = f"{type(e).__name__}: {e}"
        plt.close("all")
        changed = not (np.array_equal(wm, h.valid_window_boolean_mask) and np.array_equal(pm, h.valid_peak_boolean_mask))
        return {"reproduced": changed, "key": "masks-not-restored-on-exception" if err else "plot-modifies-object",
                "detail": f"masks {wm.tolist()} -> {h.valid_window_boolean_mask.tolist()} after plot_pre_and_post_rejection" + (f" raised {err}" if err else "")}
    kind = what.split(":")[1] if ":" in what else "traditional"
    if kind == "azimuthal" or what == "mesh":
        obj = hvsrpy.HvsrAzimuthal([_mk_real(spec, 0), _mk_real(spec, 1)], [0.0, 90.0])
        for k, hh in enumerate(obj.hvsrs):
            src = _mk_real(spec, k)
            hh._main_peak_frq, hh._main_peak_amp = src._main_peak_frq, src._main_peak_amp
            hh.valid_window_boolean_mask, hh.valid_peak_boolean_mask = src.valid_window_boolean_mask, src.valid_peak_boolean_mask
        inner = obj.hvsrs
    else:
        obj = _mk_real(spec)
        inner = [obj]
    dist = spec["dist"]
    if spec.get("prior_status"):
        # the object was drawn once under earlier accept masks
        for h, st in zip(inner, spec["prior_status"]):
            for i, s_ in enumerate(st):
                h.valid_window_boolean_mask[i] = h.valid_peak_boolean_mask[i] = (s_ == "accepted")
        try:
            fig0, ax0 = plt.subplots()
            hvsrpy.plot_single_panel_hvsr_curves(obj, distribution_mc=dist, distribution_fn=dist, ax=ax0)
        except Exception:   # noqa
            pass
        plt.close("all")
        for h, st in zip(inner, spec["status"]):
            for i, s_ in enumerate(st):
                h.valid_window_boolean_mask[i] = h.valid_peak_boolean_mask[i] = (s_ == "accepted")
    snap = [(h.amplitude.copy(), h.valid_window_boolean_mask.copy(), h.valid_peak_boolean_mask.copy(), h._main_peak_frq.copy()) for h in inner]
    try:
        if what.startswith("summary"):
            import io, contextlib
            import hvsrpy.postprocessing as _pp
            shown, keep, keep_pd = [], _pp.display, _pp.pd

            class _PD:   # pandas as seen by the function: the table is recorded when it is built (the caption may raise afterwards)
                def __getattr__(self, n):
                    return getattr(keep_pd, n)

                def DataFrame(self, *a_, **k_):
                    df = keep_pd.DataFrame(*a_, **k_)
                    shown.append(df)
                    return df
            _pp.display, _pp.pd = (lambda s_, *a_, **k_: None), _PD()
            try:
                with contextlib.redirect_stdout(io.StringIO()):
                    hvsrpy.summarize_hvsr_statistics(obj, distribution_mc=dist, distribution_fn=dist)
            except ValueError:
                if not shown:
                    raise
            finally:
                _pp.display, _pp.pd = keep, keep_pd
            lines = None
            if len(shown) == 1:
                tab = np.asarray(shown[0].values, dtype=float)
                st = lambda fn, *a: float(getattr(obj, fn)(*a, distribution=dist))   # noqa
                rows = [[st("mean_fn_frequency"), st("std_fn_frequency"), st("nth_std_fn_frequency", -1), st("nth_std_fn_frequency", 1)],
                        [st("mean_fn_amplitude"), st("std_fn_amplitude"), st("nth_std_fn_amplitude", -1), st("nth_std_fn_amplitude", 1)]]
                close = lambda a, b: np.allclose(np.asarray(a, float), np.asarray(b, float), rtol=1e-9, atol=0, equal_nan=True)   # noqa
                if tab.shape == (3, 4) and not (close(tab[0], rows[0]) and close(tab[2], rows[1])):
                    return {"reproduced": True, "key": "summary-table", "detail": f"table rows {tab[0].tolist()} / {tab[2].tolist()} vs the object's statistics {rows}"}
                if tab.shape == (3, 4) and dist == "lognormal":
                    per = [1 / rows[0][0], rows[0][1], 1 / rows[0][2], 1 / rows[0][3]]
                    if not close(tab[1], per):
                        return {"reproduced": True, "key": "summary-period-row",
                                "detail": f"period row {tab[1].tolist()} vs reciprocal of the object's fn statistics {per}"}
        else:
            opt = what.split(":")[2] if what.count(":") >= 2 else "default"
            fig, ax = plt.subplots()
            hvsrpy.plot_single_panel_hvsr_curves(obj, distribution_mc=dist, distribution_fn=dist, ax=ax, **OPTIONS.get(opt, {}))
            lines = ax.get_lines()
    except Exception as e:   # noqa
        plt.close("all")
        return {"reproduced": False, "detail": f"function raised {type(e).__name__} ({str(e)[:120]}) on the concrete state {spec.get('status')} fn {spec.get('peak_frq')}"}
    for h, (a, w, p, f) in zip(inner, snap):
        if not (np.array_equal(a, h.amplitude) and np.array_equal(w, h.valid_window_boolean_mask) and np.array_equal(p, h.valid_peak_boolean_mask) and np.array_equal(f, h._main_peak_frq, equal_nan=True)):
            plt.close("all")
            return {"reproduced": True, "key": "plot-modifies-object", "detail": "object changed by the plotting / summary function"}
    if lines is not None:
        acc = [l for l in lines if l.get_color() == ACC and abs(l.get_linewidth() - 0.3) < 1e-9]
        want = [h.amplitude[i] for h in inner for i in range(h.n_curves) if h.valid_window_boolean_mask[i]]
        ok = len(acc) == len(want) and all(np.array_equal(l.get_ydata(), w_) for l, w_ in zip(acc, want))
        black = [l for l in lines if l.get_color() == "black" and abs(l.get_linewidth() - 1.3) < 1e-9]
        ok2 = True
        if black:
            ok2 = len(black) == 3 and np.allclose(black[0].get_ydata(), obj.mean_curve(dist)) and np.allclose(black[1].get_ydata(), obj.nth_std_curve(1, dist)) and np.allclose(black[2].get_ydata(), obj.nth_std_curve(-1, dist))
        plt.close("all")
        if not ok:
            return {"reproduced": True, "key": "lines-vs-windows", "detail": f"{len(acc)} accepted-style lines for {len(want)} accepted windows (or wrong data)"}
        if not ok2:
            return {"reproduced": True, "key": "mean-std-lines", "detail": "mean / std lines differ from the object's statistics"}
    return {"reproduced": False, "detail": f"drawn data and object state as specified (state {spec.get('status')}, fn {spec.get('peak_frq')})"}


def validate(spec):
    return {"ok": True, "skipped": True}
