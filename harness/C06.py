"""C06 - frequency-domain window rejection follows Cox et al. (2020) and terminates.

(a) the inner routine `_frequency_domain_window_rejection` runs from an arbitrary valid state (symbolic peak
    frequencies, symbolic curves, symbolic n, every max_iterations in the bound, 4 distribution pairs) next to
    a reference transcription of the published loop operating on a shadow copy of the state; per feasible
    path the final masks and the returned iteration count must coincide (the estimators themselves are C05's
    subject; the reference calls the same accessors on the shadow object);
(b) the outer function is "peak search with the given range on every object, inner routine per object,
    maximum of the counts";
(c) end to end on HvsrTraditional / HvsrAzimuthal objects built by the real constructor;
plus monotonicity (never re-accepts), iteration bound (DEBUG records), permutation and scale invariance.
"""
import copy
import itertools
import logging

import numpy as np
import z3
from harness import pipeline as PP

from symx import loader
from symx.core import Sym, Ctx, symarray, qval, is_nan, PathAbort
from symx.report import fl, concretiser, pc_holds_numerically, real_witness, shaped_model

FUNCTIONS_Q = ["window_rejection.frequency_domain_window_rejection", "window_rejection._frequency_domain_window_rejection",
               "hvsr_traditional.HvsrTraditional.mean_fn_frequency", "hvsr_traditional.HvsrTraditional.std_fn_frequency",
               "hvsr_traditional.HvsrTraditional.nth_std_fn_frequency", "hvsr_traditional.HvsrTraditional.mean_curve_peak",
               "hvsr_traditional.HvsrTraditional.update_peaks_bounded", "hvsr_azimuthal.HvsrAzimuthal.update_peaks_bounded"]
STUBS = ["scipy.signal.find_peaks -> _local_maxima_1d transcription", "matplotlib/pandas/IPython -> recorders (import only)",
         "sqrt/exp/log uninterpreted (monotone comparisons in log space)"]
ASSUMPTIONS = ["floats as reals", "the estimators called by the algorithm are the textbook ones (C05)",
               "state on entry of the inner routine: masks equal, accepted windows have a (positive) peak"]
OUTSIDE = ["more windows than the bound", "find_peaks_kwargs", "rounding in the 0.01 convergence tests"]
BOUNDS = {"quick": {"windows": "3-4", "frequencies": 3, "max_iterations": "1-3", "azimuths": 2},
          "thorough": {"windows": "3-5", "frequencies": "3-4", "max_iterations": "1-4", "azimuths": 2}}
INSTANCE_TIMEOUT = {"quick": 160, "thorough": 700}
DPAIRS = [("lognormal", "lognormal"), ("normal", "normal"), ("lognormal", "normal"), ("normal", "lognormal")]
_L = None


def L():
    global _L
    if _L is None:
        _L = loader.load(["window_rejection"])
    return _L


def functions_encoded():
    return L().functions_encoded(FUNCTIONS_Q)


def instances(tier):
    out = []
    ws = [3, 4] if tier == "quick" else [3, 4, 5]
    its = [1, 2, 3] if tier == "quick" else [1, 2, 3, 4]
    for w in ws:
        for mi in its:
            for dfn, dmc in (DPAIRS if w == 3 or tier == "thorough" else DPAIRS[:2]):
                if tier == "quick" and w == 4 and mi >= 2:
                    continue
                out.append({"name": f"inner_w{w}_it{mi}_{dfn}_{dmc}", "func": "run_inner",
                            "kwargs": {"w": w, "nf": 3, "maxit": mi, "dfn": dfn, "dmc": dmc}})
    # the alias 'log-normal' the package accepts for every distribution argument
    for dfn, dmc in (("log-normal", "log-normal"), ("log-normal", "normal"), ("normal", "log-normal")):
        out.append({"name": f"inner_w3_it2_{dfn}_{dmc}", "func": "run_inner", "kwargs": {"w": 3, "nf": 3, "maxit": 2, "dfn": dfn, "dmc": dmc}})
    # algorithm-level instances: the statistics of each accept state are arbitrary symbolic values (a superset of the real ones)
    for w, mi in ([(3, 3), (4, 2), (4, 3)] if tier == "quick" else [(3, 3), (4, 2), (4, 3), (4, 4), (5, 3), (5, 4), (6, 3)]):
        out.append({"name": f"abstract_w{w}_it{mi}", "func": "run_inner_abstract", "kwargs": {"w": w, "maxit": mi}})
    for dfn, dmc in DPAIRS[:2]:
        out.append({"name": f"perm_{dfn}", "func": "run_invariance", "kwargs": {"w": 3, "maxit": 2, "dfn": dfn, "dmc": dmc, "mode": "perm"}})
        out.append({"name": f"scale_{dfn}", "func": "run_invariance", "kwargs": {"w": 3, "maxit": 2, "dfn": dfn, "dmc": dmc, "mode": "scale"}})
    for kind in ("traditional", "azimuthal"):
        for rng in ("none", "sym"):
            out.append({"name": f"outer_{kind}_{rng}", "func": "run_outer", "kwargs": {"kind": kind, "rng": rng}})
    # the same object used twice: a first query / rejection under one search range, then the rejection under another
    for kind in ("traditional", "azimuthal"):
        out.append({"name": f"e2e_reuse_{kind}", "func": "run_e2e", "kwargs": {"kind": kind, "maxit": 2, "w": 3, "nf": 5, "reuse": True}, "timeout": 230 if tier == "quick" else 700})
    for kind in ("traditional", "azimuthal"):
        for mi in ([1, 2] if tier == "quick" else [1, 2, 3]):
            out.append({"name": f"e2e_{kind}_it{mi}", "func": "run_e2e", "kwargs": {"kind": kind, "maxit": mi, "w": 3, "nf": 3 if tier == "quick" else 4},
                        "timeout": 230 if tier == "quick" else 1600})
    return out


# ----------------------------------------------------------------------------- reference (published algorithm)
def reference_fdwra(h, n, max_iterations, dfn, dmc):
    """Cox et al. (2020): iterate { bounds = mean_fn -+ n std_fn ; reject accepted windows whose fn is outside ;
    stop when the relative change of |mean_fn - f_mc| and the change of std_fn are both < 0.01 } - at most
    max_iterations times; the number of iterations performed is returned (also at the limit)."""
    it = 0
    while it < max_iterations:
        it += 1
        mean_b = h.mean_fn_frequency(dfn)
        std_b = h.std_fn_frequency(dfn)
        fmc_b, _ = h.mean_curve_peak(dmc)
        d_b = abs(mean_b - fmc_b)
        lower = h.nth_std_fn_frequency(-n, dfn)
        upper = h.nth_std_fn_frequency(+n, dfn)
        for i in range(h.n_curves):
            if not h.valid_peak_boolean_mask[i]:
                continue
            f = h._main_peak_frq[i]
            keep = bool(f > lower) and bool(f < upper)
            h.valid_window_boolean_mask[i] = keep
            h.valid_peak_boolean_mask[i] = keep
        mean_a = h.mean_fn_frequency(dfn)
        std_a = h.std_fn_frequency(dfn)
        fmc_a, _ = h.mean_curve_peak(dmc)
        d_a = abs(mean_a - fmc_a)
        if d_b == 0 or std_b == 0 or std_a == 0:
            return it
        if abs(d_a - d_b) / d_b < 0.01 and abs(std_a - std_b) < 0.01:
            return it
    return it


class DebugCounter(logging.Handler):
    def __init__(self):
        super().__init__(level=logging.DEBUG)
        self.iterations = 0

    def emit(self, record):
        try:
            if str(record.msg).startswith("c_iteration"):
                self.iterations += 1
        except Exception:
            pass


def make_state(ctx, w, nf, tag=""):
    HT = L()["hvsr_traditional"].HvsrTraditional
    frq = np.arange(1.0, nf + 1)
    amp = symarray("a" + tag, (w, nf), ctx, pos="exp")
    h = PP.shell_traditional(HT)
    h.frequency, h.amplitude, h.n_curves, h.meta = frq, amp, w, {}
    h._main_peak_frq = np.array([Sym.posvar(f"pf{tag}{i}", ctx) for i in range(w)], dtype=object)
    h._main_peak_amp = np.array([Sym.posvar(f"pa{tag}{i}", ctx) for i in range(w)], dtype=object)
    h.valid_window_boolean_mask = np.ones(w, dtype=bool)
    h.valid_peak_boolean_mask = np.ones(w, dtype=bool)
    h._search_range_in_hz, h._find_peaks_kwargs = (None, None), {}
    return h


def shadow(h):
    g = PP.shallow_twin(h)
    g.valid_window_boolean_mask = h.valid_window_boolean_mask.copy()
    g.valid_peak_boolean_mask = h.valid_peak_boolean_mask.copy()
    g._main_peak_frq = h._main_peak_frq.copy()
    g._main_peak_amp = h._main_peak_amp.copy()
    g.meta = dict(h.meta)
    return g


def outcome(fn):
    try:
        return ("ret", fn())
    except ValueError as e:
        return ("ValueError", str(e)[:60])
    except TypeError as e:
        return ("TypeError", str(e)[:60])


def state_witness(h, n, maxit, dfn, dmc, what, extra=None):
    def wfn(m):
        val = concretiser(m)
        d = {"kind": "inner", "what": what, "maxit": maxit, "dfn": dfn, "dmc": dmc, "n": val(n),
             "frequency": [val(f) for f in h.frequency], "amplitude": [[val(x) for x in row] for row in h.amplitude],
             "peak_frq": [val(x) for x in h._main_peak_frq], "peak_amp": [val(x) for x in h._main_peak_amp]}
        if extra:
            d.update(extra)
        return d
    return wfn


def run_inner(rep, tier, w, nf, maxit, dfn, dmc):
    WR = L()["window_rejection"]

    def run(ctx):
        h = make_state(ctx, w, nf)
        g = shadow(h)
        n = Sym.var("n", ctx, pos=True)
        entry = h.valid_window_boolean_mask.copy()
        cnt = DebugCounter()
        WR.logger.addHandler(cnt)
        old = WR.logger.level
        WR.logger.setLevel(logging.DEBUG)
        try:
            got = outcome(lambda: WR._frequency_domain_window_rejection(h, n=n, max_iterations=maxit, distribution_fn=dfn, distribution_mc=dmc))
        finally:
            WR.logger.removeHandler(cnt)
            WR.logger.setLevel(old)
        want = outcome(lambda: reference_fdwra(g, n, maxit, dfn, dmc))
        return h, g, n, entry, got, want, cnt.iterations

    for ctx, (h, g, n, entry, got, want, iters) in rep.explore(run, max_paths=1200 if tier == "quick" else 15000):
        rep.reachable(ctx)
        W = lambda what: state_witness(h, n, maxit, dfn, dmc, what)
        r, m = ctx.model()
        checks = [
            ("accept/reject decisions equal the published algorithm's", bool(np.array_equal(h.valid_window_boolean_mask, g.valid_window_boolean_mask)
                                                                         and np.array_equal(h.valid_peak_boolean_mask, g.valid_peak_boolean_mask)), "decisions"),
            ("returned iteration count equals the published algorithm's", got == want or (got[0] == want[0] != "ret"), "count"),
            ("never re-accepts a window", not bool(np.any(h.valid_window_boolean_mask & ~entry)), "monotone"),
            ("at most max_iterations iterations", iters <= maxit, "bound"),
        ]
        renv = None
        for label, ok, key in checks:
            rep.obligations += 1
            if ok:
                rep.discharged += 1
            elif r == z3.sat:
                if renv is None:
                    cnt = rep.__dict__.setdefault("_rw", {})
                    cnt[key] = cnt.get(key, 0) + 1
                    renv = (real_witness(ctx, model=m, tries=1500) if cnt[key] <= 3 else None) or m
                spec = W(key)(renv)
                spec["engine_got"] = str(got)
                spec["engine_want"] = str(want)
                rep.candidate(spec, f"{label}: code {got} masks {h.valid_window_boolean_mask.tolist()} vs reference {want} masks {g.valid_window_boolean_mask.tolist()}", key=key)
        rep.__dict__["_vtry"] = rep.__dict__.get("_vtry", 0) + 1
        venv = real_witness(ctx, model=m, tries=150) if (r == z3.sat and got[0] == "ret" and got[1] is not None and len(rep.validations) < 8 and rep._vtry <= 16) else None
        if venv is not None:
            spec = W("validate")(venv)
            spec["expect"] = {"ret": got[1], "mask": h.valid_window_boolean_mask.tolist()}
            spec["instance"] = rep.name
            rep.validation(spec)
            rep.sample({"n": spec["n"], "peak_frq": spec["peak_frq"], "maxit": maxit, "returned": got[1], "mask": spec["expect"]["mask"]})


class AbstractHvsr:
    """Duck-typed stand-in for the object the inner routine works on: the statistics of every accept state are free symbolic
    values (memoised per mask, shared between the object handed to the code and the reference's shadow)."""

    def __init__(self, ctx, w, tables):
        self.ctx, self.n_curves, self.tables = ctx, w, tables
        self.valid_window_boolean_mask = np.ones(w, dtype=bool)
        self.valid_peak_boolean_mask = np.ones(w, dtype=bool)
        self._main_peak_frq = tables["peaks"]
        self.meta = {}

    def _state(self):
        key = tuple(bool(x) for x in self.valid_peak_boolean_mask)
        t = self.tables["states"]
        if key not in t:
            tag = "".join("1" if b else "0" for b in key)
            mean, std, mc = Sym.var(f"mean_{tag}", self.ctx, pos=True), Sym.var(f"std_{tag}", self.ctx, lo=0), Sym.var(f"mc_{tag}", self.ctx, pos=True)
            t[key] = (mean, std, mc)
        return t[key]

    def mean_fn_frequency(self, distribution="normal"):
        return self._state()[0]

    def std_fn_frequency(self, distribution="normal"):
        return self._state()[1]

    def mean_curve_peak(self, distribution="normal"):
        return self._state()[2], Sym(z3.RealVal(1))

    def nth_std_fn_frequency(self, n, distribution="normal"):
        m, s_, _ = self._state()
        return m + s_ * n


def run_inner_abstract(rep, tier, w, maxit):
    WR = L()["window_rejection"]

    def run(ctx):
        tables = {"states": {}, "peaks": np.array([Sym.var(f"pf{i}", ctx, pos=True) for i in range(w)], dtype=object)}
        h, g = AbstractHvsr(ctx, w, tables), AbstractHvsr(ctx, w, tables)
        n = Sym.var("n", ctx, pos=True)
        entry = h.valid_window_boolean_mask.copy()
        got = outcome(lambda: WR._frequency_domain_window_rejection(h, n=n, max_iterations=maxit, distribution_fn="normal", distribution_mc="normal"))
        want = outcome(lambda: reference_fdwra(g, n, maxit, "normal", "normal"))
        return tables, h, g, n, entry, got, want

    for ctx, (tables, h, g, n, entry, got, want) in rep.explore(run, max_paths=2500 if tier == "quick" else 40000, timeout_ms=5000):
        def W(m):
            val = concretiser(m)
            return {"kind": "abstract", "w": w, "maxit": maxit, "n": val(n), "peaks": [val(x) for x in tables["peaks"]],
                    "states": {"".join("1" if b else "0" for b in k): [val(x) for x in v] for k, v in tables["states"].items()}}
        same = bool(np.array_equal(h.valid_window_boolean_mask, g.valid_window_boolean_mask)) and (got == want or got[0] == want[0] != "ret")
        mono = not bool(np.any(h.valid_window_boolean_mask & ~entry))
        for label, ok, key in (("algorithm level: decisions and iteration count equal the published algorithm's for arbitrary per-state statistics", same, "abstract-algorithm"),
                               ("algorithm level: never re-accepts a window", mono, "monotone")):
            rep.obligations += 1
            if ok:
                rep.discharged += 1
            else:
                r, m = ctx.model()
                if r == z3.sat:
                    spec = W(m)
                    spec["engine_got"], spec["engine_want"] = str(got), str(want)
                    rep.candidate(spec, f"{label}: code {got} {h.valid_window_boolean_mask.tolist()} vs reference {want} {g.valid_window_boolean_mask.tolist()}", key=key)
        if len(rep.samples) < 2:
            rep.sample({"windows": w, "max_iterations": maxit, "returned": got[1] if got[0] == "ret" else got[0], "mask": h.valid_window_boolean_mask.tolist()})


def run_invariance(rep, tier, w, maxit, dfn, dmc, mode):
    WR = L()["window_rejection"]
    nf = 3
    perm = [1, 2, 0][:w] if w == 3 else list(range(1, w)) + [0]

    def run(ctx):
        h = make_state(ctx, w, nf)
        n = Sym.var("n", ctx, pos=True)
        g = shadow(h)
        if mode == "perm":
            g.amplitude = h.amplitude[perm]
            g._main_peak_frq = h._main_peak_frq[perm]
            g._main_peak_amp = h._main_peak_amp[perm]
        else:
            c = Sym.posvar("c", ctx)
            g.amplitude = h.amplitude * c
            g._main_peak_amp = h._main_peak_amp * c
        a = outcome(lambda: WR._frequency_domain_window_rejection(h, n=n, max_iterations=maxit, distribution_fn=dfn, distribution_mc=dmc))
        b = outcome(lambda: WR._frequency_domain_window_rejection(g, n=n, max_iterations=maxit, distribution_fn=dfn, distribution_mc=dmc))
        return h, g, n, a, b

    for ctx, (h, g, n, a, b) in rep.explore(run, max_paths=1500 if tier == "quick" else 15000):
        rep.reachable(ctx)
        ma = h.valid_window_boolean_mask
        mb = g.valid_window_boolean_mask
        want = ma[perm] if mode == "perm" else ma
        ok = bool(np.array_equal(mb, want)) and (a == b or a[0] == b[0] != "ret")
        rep.obligations += 1
        if ok:
            rep.discharged += 1
        else:
            r, m = ctx.model()
            if r == z3.sat:
                m = real_witness(ctx, model=m) or m
                spec = state_witness(h, n, maxit, dfn, dmc, mode, extra={"perm": perm})(m)
                if mode == "scale":
                    spec["scale"] = concretiser(m)(Sym.posvar("c", ctx))
                rep.candidate(spec, f"decisions change under {mode}: {a} {ma.tolist()} vs {b} {mb.tolist()}", key=f"not-{mode}-invariant")


def run_outer(rep, tier, kind, rng):
    """Outer function = peak search with the given range on every object, inner routine per object, max of counts."""
    WR = L()["window_rejection"]
    HT = L()["hvsr_traditional"].HvsrTraditional
    HA = L()["hvsr_azimuthal"].HvsrAzimuthal

    def run(ctx):
        frq = np.arange(1.0, 4.0)
        objs = [HT(frq, symarray(f"a{k}", (2 if kind == "traditional" else 1, 3), ctx, nonneg=True)) for k in range(2 if kind == "azimuthal" else 1)]
        top = HA(objs, [0.0, 90.0]) if kind == "azimuthal" else objs[0]
        inner_objs = top.hvsrs if kind == "azimuthal" else [top]
        sr = (None, None) if rng == "none" else (Sym(z3.Real("flo")), Sym(z3.Real("fhi")))
        counts = [Sym(z3.Real(f"cnt{k}")) for k in range(len(inner_objs))]
        calls = []
        real_inner = WR._frequency_domain_window_rejection

        def recorder(hvsr, n, max_iterations, distribution_fn, distribution_mc):
            calls.append((hvsr, hvsr._search_range_in_hz, n, max_iterations, distribution_fn, distribution_mc))
            return counts[len(calls) - 1]
        WR._frequency_domain_window_rejection = recorder
        try:
            ret = WR.frequency_domain_window_rejection(top, n=2.5, max_iterations=7, distribution_fn="normal", distribution_mc="lognormal",
                                                       search_range_in_hz=sr)
        finally:
            WR._frequency_domain_window_rejection = real_inner
        return inner_objs, sr, counts, calls, ret

    for ctx, (inner_objs, sr, counts, calls, ret) in rep.explore(run, max_paths=3000 if tier == "quick" else 20000):
        rep.reachable(ctx)
        ok = len(calls) == len(inner_objs) and all(c[0] is o for c, o in zip(calls, inner_objs))
        ok = ok and all(c[2] == 2.5 and c[3] == 7 and c[4] == "normal" and c[5] == "lognormal" for c in calls)
        ok = ok and all(len(c[1]) == 2 and all((a is b) or (a is None and b is None) for a, b in zip(c[1], sr)) for c in calls)
        rep.obligations += 1
        rep.discharged += int(ok)
        if not ok:
            rep.candidate({"kind": "outer", "what": "routing", "obj": kind}, "outer function does not run peak search + inner routine per object with the given arguments", key="outer-routing")
        # return value = max of the counts (>= 0)
        mx = z3.RealVal(0)
        for c in counts:
            mx = z3.If(c.e > mx, c.e, mx)
        rep.prove(ctx, "outer return value is the maximum of the per-object counts", Sym.lift(ret) != mx,
                  witness=lambda m: {"kind": "outer", "what": "max", "obj": kind}, key="outer-max")


def run_e2e(rep, tier, kind, maxit, w, nf, reuse=False):
    """Whole public function on objects built by the real constructor, against peak search + reference loop."""
    WR = L()["window_rejection"]
    HT = L()["hvsr_traditional"].HvsrTraditional
    HA = L()["hvsr_azimuthal"].HvsrAzimuthal
    naz = 2 if kind == "azimuthal" else 1
    ww = w if kind == "traditional" else 2

    def run(ctx):
        frq = np.arange(1.0, nf + 1)
        amps = [symarray(f"a{k}", (ww, nf), ctx, pos="exp") for k in range(naz)]
        n = Sym.var("n", ctx, pos=True)

        def build():
            objs = [HT(frq, a) for a in amps]
            return HA(objs, [0.0, 90.0]) if kind == "azimuthal" else objs[0]
        top, ref = build(), build()
        sr = (None, None)
        if reuse:
            # earlier use of the very same object under the default range: statistics queried, mean-curve peak queried
            for o in (top.hvsrs if kind == "azimuthal" else [top]):
                try:
                    o.mean_curve_peak("lognormal")
                    o.mean_fn_frequency("lognormal")
                except (ValueError, ZeroDivisionError):
                    pass
            sr = (None, 4.4)
        got = outcome(lambda: WR.frequency_domain_window_rejection(top, n=n, max_iterations=maxit, search_range_in_hz=sr))

        def refrun():
            best = 0
            for o in (ref.hvsrs if kind == "azimuthal" else [ref]):
                o.update_peaks_bounded(search_range_in_hz=sr)
                best = max(best, reference_fdwra(o, n, maxit, "lognormal", "lognormal"))
            return best
        want = outcome(refrun)
        masks = lambda t: [o.valid_window_boolean_mask.tolist() for o in (t.hvsrs if kind == "azimuthal" else [t])]
        return amps, n, got, want, masks(top), masks(ref)

    budget = 2500 if tier == "quick" else 30000
    for ctx, (amps, n, got, want, mg, mw) in rep.explore(run, max_paths=budget):
        ok = (mg == mw) and (got == want or got[0] == want[0] != "ret")
        rep.obligations += 1
        if ok:
            rep.discharged += 1
            continue
        r, m = shaped_model(ctx)
        if r == z3.sat:
            val = concretiser(real_witness(ctx, model=m, tries=600) or m)
            spec = {"kind": "e2e", "obj": kind, "maxit": maxit, "reuse": reuse, "n": val(n), "frequency": list(range(1, nf + 1)),
                    "amplitude": [[[val(x) for x in row] for row in a] for a in amps], "engine_got": str(got), "engine_want": str(want)}
            rep.candidate(spec, f"end-to-end: code {got} {mg} vs reference {want} {mw}", key="e2e")


# ----------------------------------------------------------------------------- concrete side
def _num(x):
    return float("nan") if x == "nan" else float(x)


def _py_reference(h, n, max_iterations, dfn, dmc):
    """Same published loop on the real object (floats)."""
    it = 0
    while it < max_iterations:
        it += 1
        mean_b, std_b = h.mean_fn_frequency(dfn), h.std_fn_frequency(dfn)
        fmc_b, _ = h.mean_curve_peak(dmc)
        d_b = abs(mean_b - fmc_b)
        lower, upper = h.nth_std_fn_frequency(-n, dfn), h.nth_std_fn_frequency(+n, dfn)
        for i in range(h.n_curves):
            if not h.valid_peak_boolean_mask[i]:
                continue
            keep = lower < h._main_peak_frq[i] < upper
            h.valid_window_boolean_mask[i] = keep
            h.valid_peak_boolean_mask[i] = keep
        mean_a, std_a = h.mean_fn_frequency(dfn), h.std_fn_frequency(dfn)
        fmc_a, _ = h.mean_curve_peak(dmc)
        d_a = abs(mean_a - fmc_a)
        if d_b == 0 or std_b == 0 or std_a == 0:
            return it
        if abs(d_a - d_b) / d_b < 0.01 and abs(std_a - std_b) < 0.01:
            return it
    return it


def _mk(spec, perm=None, scale=None):
    import hvsrpy
    frq = np.array(spec["frequency"], dtype=float)
    amp = np.array([[_num(x) for x in row] for row in spec["amplitude"]])
    pf = np.array([_num(x) for x in spec["peak_frq"]])
    pa = np.array([_num(x) for x in spec["peak_amp"]])
    if perm is not None:
        amp, pf, pa = amp[perm], pf[perm], pa[perm]
    if scale is not None:
        amp, pa = amp * scale, pa * scale
    h = hvsrpy.HvsrTraditional(frq, amp)
    h._main_peak_frq, h._main_peak_amp = pf, pa
    h.valid_window_boolean_mask = np.ones(len(pf), dtype=bool)
    h.valid_peak_boolean_mask = np.ones(len(pf), dtype=bool)
    return h


def _out(fn):
    try:
        return ("ret", fn())
    except ValueError as e:
        return ("ValueError", "")
    except TypeError as e:
        return ("TypeError", str(e)[:80])


def replay(spec):
    import hvsrpy
    from hvsrpy import window_rejection as WR
    if spec["kind"] == "outer":
        return {"reproduced": True, "key": "outer-" + spec["what"], "detail": "structural obligation on the real source (no concrete input needed)"}
    if spec["kind"] == "abstract":
        class Stub:
            def __init__(s_):
                s_.n_curves = spec["w"]
                s_.valid_window_boolean_mask = np.ones(spec["w"], dtype=bool)
                s_.valid_peak_boolean_mask = np.ones(spec["w"], dtype=bool)
                s_._main_peak_frq = np.array(spec["peaks"], dtype=float)
                s_.meta = {}

            def _st(s_):
                return spec["states"]["".join("1" if b else "0" for b in s_.valid_peak_boolean_mask)]

            def mean_fn_frequency(s_, d="normal"):
                return s_._st()[0]

            def std_fn_frequency(s_, d="normal"):
                return s_._st()[1]

            def mean_curve_peak(s_, d="normal"):
                return s_._st()[2], 1.0

            def nth_std_fn_frequency(s_, n, d="normal"):
                return s_._st()[0] + n * s_._st()[1]
        try:
            h, g = Stub(), Stub()
            got = _out(lambda: WR._frequency_domain_window_rejection(h, n=spec["n"], max_iterations=spec["maxit"], distribution_fn="normal", distribution_mc="normal"))
            want = _out(lambda: _py_reference(g, spec["n"], spec["maxit"], "normal", "normal"))
        except KeyError as e:
            return {"reproduced": False, "detail": f"concrete run reached an accept state the symbolic path did not ({e})"}
        if not np.array_equal(h.valid_window_boolean_mask, g.valid_window_boolean_mask) or not (got == want or got[0] == want[0] != "ret"):
            return {"reproduced": True, "key": "abstract-algorithm",
                    "detail": f"real inner routine on an object with per-state statistics {spec['states']} (fn peaks {spec['peaks']}, n={spec['n']}, max_iterations={spec['maxit']}): "
                              f"{got} {h.valid_window_boolean_mask.tolist()} vs published algorithm {want} {g.valid_window_boolean_mask.tolist()}"[:600]}
        return {"reproduced": False, "detail": "agree on the stub object"}
    if spec["kind"] == "e2e":
        frq = np.array(spec["frequency"], dtype=float)

        def build():
            objs = [hvsrpy.HvsrTraditional(frq, np.array([[_num(x) for x in row] for row in a])) for a in spec["amplitude"]]
            return hvsrpy.HvsrAzimuthal(objs, [0.0, 90.0]) if spec["obj"] == "azimuthal" else objs[0]
        top, ref = build(), build()
        sr = (None, None)
        if spec.get("reuse"):
            for o in (top.hvsrs if spec["obj"] == "azimuthal" else [top]):
                try:
                    o.mean_curve_peak("lognormal")
                    o.mean_fn_frequency("lognormal")
                except (ValueError, ZeroDivisionError):
                    pass
            sr = (None, 4.4)
        got = _out(lambda: WR.frequency_domain_window_rejection(top, n=spec["n"], max_iterations=spec["maxit"], search_range_in_hz=sr))

        def refrun():
            best = 0
            for o in (ref.hvsrs if spec["obj"] == "azimuthal" else [ref]):
                o.update_peaks_bounded(search_range_in_hz=sr)
                best = max(best, _py_reference(o, spec["n"], spec["maxit"], "lognormal", "lognormal"))
            return best
        want = _out(refrun)
        mk = lambda t: [o.valid_window_boolean_mask.tolist() for o in (t.hvsrs if spec["obj"] == "azimuthal" else [t])]
        if got[0] == "TypeError" and want[0] == "ret" and want[1] == spec["maxit"]:
            return {"reproduced": True, "key": "no-count-returned-at-iteration-limit", "detail": f"public function raised {got} where the published algorithm stops at the limit and returns {want[1]}"}
        if mk(top) != mk(ref) or not (got == want or got[0] == want[0] != "ret"):
            return {"reproduced": True, "key": "e2e-mismatch", "detail": f"code {got} {mk(top)} vs reference {want} {mk(ref)}"}
        return {"reproduced": False, "detail": f"agree: {got} {mk(top)}"}
    n, maxit, dfn, dmc = spec["n"], spec["maxit"], spec["dfn"], spec["dmc"]
    if spec["what"] in ("perm", "scale"):
        h = _mk(spec)
        g = _mk(spec, perm=spec.get("perm") if spec["what"] == "perm" else None, scale=spec.get("scale") if spec["what"] == "scale" else None)
        a = _out(lambda: WR._frequency_domain_window_rejection(h, n=n, max_iterations=maxit, distribution_fn=dfn, distribution_mc=dmc))
        b = _out(lambda: WR._frequency_domain_window_rejection(g, n=n, max_iterations=maxit, distribution_fn=dfn, distribution_mc=dmc))
        want = h.valid_window_boolean_mask[spec["perm"]] if spec["what"] == "perm" else h.valid_window_boolean_mask
        if not np.array_equal(g.valid_window_boolean_mask, want) or not (a == b or a[0] == b[0] != "ret"):
            return {"reproduced": True, "key": f"not-{spec['what']}-invariant", "detail": f"{a} {h.valid_window_boolean_mask.tolist()} vs {b} {g.valid_window_boolean_mask.tolist()}"}
        return {"reproduced": False, "detail": "invariant on the real library"}
    h, g = _mk(spec), _mk(spec)
    entry = h.valid_window_boolean_mask.copy()
    got = _out(lambda: WR._frequency_domain_window_rejection(h, n=n, max_iterations=maxit, distribution_fn=dfn, distribution_mc=dmc))
    want = _out(lambda: _py_reference(g, n, maxit, dfn, dmc))
    same_masks = np.array_equal(h.valid_window_boolean_mask, g.valid_window_boolean_mask)
    if got == ("ret", None) and want == ("ret", maxit) and same_masks:
        return {"reproduced": True, "key": "no-count-returned-at-iteration-limit",
                "detail": f"inner routine returned None after {maxit} iteration(s) (n={n}, fn={spec['peak_frq']}); published algorithm returns {maxit}"}
    if not same_masks:
        return {"reproduced": True, "key": "decisions", "detail": f"masks {h.valid_window_boolean_mask.tolist()} vs reference {g.valid_window_boolean_mask.tolist()} (n={n}, fn={spec['peak_frq']})"}
    if not (got == want or got[0] == want[0] != "ret"):
        return {"reproduced": True, "key": "count", "detail": f"returned {got} vs reference {want}"}
    if np.any(h.valid_window_boolean_mask & ~entry):
        return {"reproduced": True, "key": "monotone", "detail": "re-accepted a window"}
    return {"reproduced": False, "detail": f"agree: {got}"}


def validate(spec):
    from hvsrpy import window_rejection as WR
    h = _mk(spec)
    got = _out(lambda: WR._frequency_domain_window_rejection(h, n=spec["n"], max_iterations=spec["maxit"],
                                                             distribution_fn=spec["dfn"], distribution_mc=spec["dmc"]))
    exp = spec["expect"]
    if got != ("ret", exp["ret"]) or h.valid_window_boolean_mask.tolist() != exp["mask"]:
        return {"ok": False, "detail": f"engine ({exp}) library ({got}, {h.valid_window_boolean_mask.tolist()}) n={spec['n']} fn={spec['peak_frq']}"}
    return {"ok": True}
