"""Shared helpers for the processing-pipeline properties (C01, C03, C04, C09, C17)."""
import numpy as np
import z3

from symx import loader, models
from symx.core import Sym, CSym, Ctx, symarray, qval, is_nan, UF_MAG, UF_SQRT, cosd, sind

_PL = {}


def no_peaks(x, **kw):
    """find_peaks stub for harnesses that never look at peaks (result-object construction only)."""
    return np.array([], dtype=int), {}


def PL(floor=2, key="default", peaks=False, **kw):
    k = (floor, key, peaks)
    if k not in _PL:
        if not peaks:
            kw["find_peaks"] = no_peaks
        Ld = loader.load(["processing", "seismic_recording_3c", "preprocessing", "timeseries", "settings"], **kw)
        loader.lower_fft_floor(Ld, floor)
        _PL[k] = Ld
    return _PL[k]


def mkrec(Ld, ctx, tag, n, dt=0.5, scale=None, degrees=0.0, meta=None, comps=None):
    TS = Ld["timeseries"].TimeSeries
    R3 = Ld["seismic_recording_3c"].SeismicRecording3C
    out = []
    for c in ("ns", "ew", "vt"):
        a = comps[c] if comps is not None else symarray(f"{tag}_{c}", (n,), ctx)
        if scale is not None:
            a = np.array([v * scale for v in a], dtype=object)
        out.append(TS(a, dt))
    return R3(*out, degrees_from_north=degrees, meta=meta)


def samples(tag, n, ctx=None):
    return {c: symarray(f"{tag}_{c}", (n,), ctx) for c in ("ns", "ew", "vt")}


def taper_of(ctx, n, alpha):
    """the taper symbols the model hands out for (n, alpha) on this path (creates them if needed)."""
    return models.sym_tukey(n, alpha=alpha)


def mags(x, taper, nfft):
    """|rfft(taper * x, n=nfft)| as uninterpreted-magnitude terms (spec side)."""
    y = np.array([x[j] * taper[j] for j in range(len(x))], dtype=object)
    F = models.sym_rfft(y, n=nfft)
    return [c.mag() for c in F], F


def power(x, taper, nfft):
    y = np.array([x[j] * taper[j] for j in range(len(x))], dtype=object)
    F = models.sym_rfft(y, n=nfft)
    return [c.re * c.re + c.im * c.im for c in F]


def combine_spec(name, a, b):
    """Reference table of the horizontal combinations (per spectral bin)."""
    if name == "arithmetic_mean":
        return (a + b) / 2
    if name in ("squared_average", "quadratic_mean", "root_mean_square", "effective_amplitude_spectrum"):
        return ((a * a + b * b) / 2).sqrt()
    if name == "geometric_mean":
        return (a * b).sqrt()
    if name in ("total_horizontal_energy", "vector_summation"):
        return (a * a + b * b).sqrt()
    if name == "maximum_horizontal_value":
        return Sym(z3.If(a.e >= b.e, a.e, b.e))
    raise KeyError(name)


FAMILY = {"arithmetic_mean": "arithmetic", "squared_average": "squared", "quadratic_mean": "squared", "root_mean_square": "squared",
          "effective_amplitude_spectrum": "squared", "geometric_mean": "geometric", "total_horizontal_energy": "energy",
          "vector_summation": "energy", "maximum_horizontal_value": "maximum"}


def smooth_rows(Ld, op, frq, rows, fcs, bw):
    """Smooth with the real operator (its identity with the published kernel is C02's subject)."""
    SM = Ld["smoothing"]
    arr = np.empty((len(rows), len(frq)), dtype=object)
    for r, row in enumerate(rows):
        for j, v in enumerate(row):
            arr[r, j] = v
    return SM.SMOOTHING_OPERATORS[op](np.asarray(frq, dtype=float), arr, np.asarray(fcs, dtype=float), bw)


def sqrt_arg(res):
    e = res.e if isinstance(res, Sym) else res
    if z3.is_app(e) and e.decl().name() == "sqrt" and e.num_args() == 1:
        return e.arg(0)
    return None


def settings_kwargs(op, bw, fcs, width=0.1, policy="frequency_domain_resampling"):
    return dict(window_type_and_width=["tukey", width], smoothing=dict(operator=op, bandwidth=bw, center_frequencies_in_hz=list(fcs)),
                fft_settings=None, handle_dissimilar_time_steps_by=policy)


# default smoothing configurations: (operator, bandwidth) on an n_fft=4, dt=0.5 grid (0, 0.5, 1 Hz) and n_fft=8 (0 .. 1 Hz step 0.25)
SMOOTH_CFG = {
    "konno_and_ohmachi": 2.0, "parzen": 0.8, "linear_rectangular": 0.6, "log_rectangular": 0.7,
    "linear_triangular": 1.2, "log_triangular": 0.9, "savitzky_and_golay": 5,
}


# ----------------------------------------------------------------------------- objects with harness-installed state
def shell_traditional(HT, w=1, nf=3):
    """An HvsrTraditional built by the REAL constructor on a throw-away concrete input, so that every attribute __init__
    sets exists; the harness then installs its own (symbolic) state over it."""
    return HT(np.arange(1.0, nf + 1), np.ones((w, nf)))


def shell_azimuthal(HA, HT, naz=2):
    return HA([shell_traditional(HT) for _ in range(naz)], [float(10 * k) for k in range(naz)])


def shallow_twin(h):
    """Copy of an object that shares the (immutable, symbolic) curve data but none of the containers."""
    import copy
    g = copy.copy(h)
    for k, v in list(h.__dict__.items()):
        if isinstance(v, (dict, list)):
            setattr(g, k, copy.copy(v))
    return g
