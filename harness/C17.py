"""C17 - power spectral densities are correctly normalised; diffuse-field HVSR agrees.

Exact-DFT symbolic execution (n in {4, 8}; twiddles rational, or the symbol r with r^2 = 1/2) of rpsd /
_rpds_single_component / diffuse_field_hvsr_processing / _differentiate / _remove_instrument_response on symbolic samples and
an arbitrary symbolic taper.  All obligations are polynomial identities (no square roots):
  Parseval:  sum_{0<k<n/2} psd_k * (fs/n) * mean(t^2) = mean((t x)^2) - (|X_0|^2 + |X_{n/2}|^2)/(n L)
  degree-2 homogeneity;  Welch: the joint density is the average of the single-window densities;
  diffuse field: cell^2 * Smooth(psd_vt) = Smooth(psd_ns + psd_ew) with the densities rpsd returns for the same windows;
  spectral derivative of a band-limited series; flat instrument response = division by the sensitivity with the mean removed.
"""
import numpy as np
import z3

from symx import loader, models
from symx.core import Sym, CSym, Ctx, symarray, qval, is_nan, OutsideClaim
from symx.report import fl, concretiser, real_witness
from harness import pipeline as PP
from harness import C01

FUNCTIONS_Q = ["processing.rpsd", "processing._rpds_single_component", "processing.diffuse_field_hvsr_processing", "preprocessing.psd_preprocess",
               "instrument_response._domain_transform", "instrument_response._differentiate", "instrument_response._remove_instrument_response",
               "instrument_response.InstrumentTransferFunction._h"]
STUBS = ["numpy.fft.rfft/irfft -> exact DFT/IDFT as linear maps (n in {4, 8})", "scipy.signal.windows.tukey -> arbitrary taper t_j in [0,1]",
         "nextpow2 floor lowered to n", "scipy.signal.zpk2tf/freqs are the real functions (flat response: no poles, no zeros)",
         "scipy.signal.detrend -> closed-form mean removal", "Butterworth: corner frequencies [None, None] (no filtering)"]
ASSUMPTIONS = ["floats as reals", "even n_fft (the source allocates np.zeros(n/2) for odd n, which raises - noted, not part of the property)",
               "mean(t^2) != 0 (an all-zero taper is a degenerate division path)"]
OUTSIDE = ["pole-zero responses (complex rational evaluation inside scipy)", "n_fft > 8", "rounding"]
BOUNDS = {"quick": {"n_fft": [4, 8], "samples": "3-4", "windows": "1-2"}, "thorough": {"n_fft": [4, 8], "samples": "3-7", "windows": "1-3"}}
INSTANCE_TIMEOUT = {"quick": 230, "thorough": 700}
DT = 0.5


def LD(nfft):
    return PP.PL(floor=nfft, key="exact")


def functions_encoded():
    return LD(4).functions_encoded(FUNCTIONS_Q)


def instances(tier):
    out = []
    cfgs = [(4, 3), (4, 4), (8, 3)] if tier == "quick" else [(4, 3), (4, 4), (8, 3), (8, 5), (8, 7)]
    for nfft, L in cfgs:
        out.append({"name": f"parseval_n{nfft}_L{L}", "func": "run_parseval", "kwargs": {"nfft": nfft, "L": L}})
    for nwin in ([2] if tier == "quick" else [2, 3]):
        out.append({"name": f"welch_w{nwin}", "func": "run_welch", "kwargs": {"nfft": 4, "L": 3, "nwin": nwin}})
    for smooth in (True, False):
        out.append({"name": f"homogeneity_smooth{int(smooth)}", "func": "run_homogeneity", "kwargs": {"nfft": 4, "L": 3, "smooth": smooth}})
    for nrec in (1, 2):
        out.append({"name": f"diffuse_agrees_r{nrec}", "func": "run_diffuse", "kwargs": {"nfft": 4, "L": 3, "nrec": nrec}})
    for nfft in (4, 8):
        out.append({"name": f"derivative_n{nfft}", "func": "run_derivative", "kwargs": {"nfft": nfft}})
    # one settings object used for short windows first and for longer windows afterwards (the FFT length recorded by the first
    # run must not crop the second), and an explicit FFT length shorter than the windows
    out.append({"name": "settings_reused_short_then_long", "func": "run_settings_reuse", "kwargs": {"explicit": False}})
    out.append({"name": "explicit_fft_length_shorter_than_window", "func": "run_settings_reuse", "kwargs": {"explicit": True}})
    out.append({"name": "flat_response", "func": "run_flat", "kwargs": {"nfft": 4, "L": 4}})
    out.append({"name": "flat_response_padded", "func": "run_flat", "kwargs": {"nfft": 8, "L": 3}})
    out.append({"name": "psd_preprocess_differentiate", "func": "run_preprocess", "kwargs": {}})
    return out


def psd_settings(S, nfft, smooth):
    fcs, bws = C01.CFG[nfft]
    kw = PP.settings_kwargs("linear_triangular", bws["linear_triangular"], fcs, width=0.3, policy="keeping_majority_time_step")
    st = S.PsdProcessingSettings(**kw)
    if not smooth:
        st.smoothing = None
    return st


def call_rpsd(P, recs, st):
    try:
        return P.rpsd(recs, st)
    except ValueError as e:
        if "must be >= 0" in str(e):
            raise OutsideClaim(str(e))
        raise


def wit(ss, extra):
    return C01.witness_fn("psd", ss, extra)


def run_parseval(rep, tier, nfft, L):
    Ld = LD(nfft)
    P, S = Ld["processing"], Ld["settings"]

    def run(ctx):
        s = PP.samples("r", L, ctx)
        rec = PP.mkrec(Ld, ctx, "r", L, DT, comps=s)
        st = psd_settings(S, nfft, False)
        res = call_rpsd(P, [rec], st)
        taper = PP.taper_of(ctx, L, 0.3)
        return s, res, taper, st.fft_settings["n"]

    for ctx, (s, res, taper, nfft) in rep.explore(run, max_paths=40, timeout_ms=1500):
        fs = 1 / DT
        bad = []
        for c in ("ns", "ew", "vt"):
            psd = res[c].amplitude
            y = [s[c][j] * taper[j] for j in range(L)]
            X = models.sym_rfft(np.array(y, dtype=object), n=nfft)
            msq = sum((v * v for v in y[1:]), y[0] * y[0]) / L
            wsf = sum((t * t for t in taper[1:]), taper[0] * taper[0]) / L
            x0 = X[0].re * X[0].re + X[0].im * X[0].im
            xn = X[nfft // 2].re * X[nfft // 2].re + X[nfft // 2].im * X[nfft // 2].im
            lhs = sum((psd[k] for k in range(2, nfft // 2)), psd[1]) * qval(fs / nfft)
            # cross-multiplied by mean(t^2) (non-zero on this path)
            bad.append(Sym.lift(lhs * wsf) != Sym.lift(msq - (x0 + xn) / (nfft * L)))
        rep.prove(ctx, f"Parseval (n={nfft}, L={L}): interior bins of the one-sided PSD carry the tapered mean-square not in the 0 Hz and Nyquist bins", bad,
                  witness=wit([s], {"nfft": nfft, "what": "parseval", "op": "linear_triangular", "bw": 1, "fcs": [], "method": None}), key="parseval", nlsat_first=True, timeout_ms=40000)
        rep.obligations += 1
        ok = list(map(float, res["vt"].frequency)) == list(np.fft.rfftfreq(nfft, DT))
        rep.discharged += int(ok)
        if not ok:
            rep.inconclusive.append("frequency vector of the unsmoothed PSD is not the FFT grid")
        rep.sample({"n_fft": nfft, "L": L})


def run_settings_reuse(rep, tier, explicit):
    Ld = LD(4)
    P, S = Ld["processing"], Ld["settings"]
    Ls, Ll = 3, 7

    def run(ctx):
        a, b = PP.samples("a", Ls, ctx), PP.samples("b", Ll, ctx)
        st = psd_settings(S, 4, False)
        if explicit:
            st.fft_settings = {"n": 4}
        else:
            call_rpsd(P, [PP.mkrec(Ld, ctx, "a", Ls, DT, comps=a)], st)            # records n = 4 in the settings object
        res = call_rpsd(P, [PP.mkrec(Ld, ctx, "b", Ll, DT, comps=b)], st)
        ref = call_rpsd(P, [PP.mkrec(Ld, ctx, "b", Ll, DT, comps=b)], psd_settings(S, 4, False))
        return a, b, res, ref, st.fft_settings

    for ctx, (a, b, res, ref, fft) in rep.explore(run, max_paths=40, timeout_ms=1500):
        bad = []
        for c in ("ns", "ew", "vt"):
            g, w_ = list(res[c].amplitude), list(ref[c].amplitude)
            bad += [z3.BoolVal(True)] if len(g) != len(w_) else [Sym.lift(x) != Sym.lift(y) for x, y in zip(g, w_)]
        rep.prove(ctx, ("an explicit FFT length shorter than the windows" if explicit else "the FFT length left in a reused settings object by shorter windows") +
                  " does not crop the windows: same PSD as with fresh settings", bad,
                  witness=wit([b], {"nfft": 4, "what": "settings-reuse", "explicit": explicit, "short": {c: [0.5 + 0.25 * j for j in range(Ls)] for c in ("ns", "ew", "vt")},
                                    "op": "linear_triangular", "bw": 1, "fcs": [], "method": None}), key="fft-length-crops-windows",
                  shape=[z3.And(v.e >= qval(0.5) + qval(0.25) * j, v.e <= 3 + qval(0.25) * j) for c in ("ns", "ew", "vt") for j, v in enumerate(b[c])])
        rep.sample({"fft_settings_after": fft})


def run_welch(rep, tier, nfft, L, nwin):
    Ld = LD(nfft)
    P, S = Ld["processing"], Ld["settings"]

    def run(ctx):
        ss = [PP.samples(f"r{i}", L, ctx) for i in range(nwin)]
        mk = lambda i: PP.mkrec(Ld, ctx, f"r{i}", L, DT, comps=ss[i])
        joint = call_rpsd(P, [mk(i) for i in range(nwin)], psd_settings(S, nfft, False))
        singles = [call_rpsd(P, [mk(i)], psd_settings(S, nfft, False)) for i in range(nwin)]
        return ss, joint, singles

    for ctx, (ss, joint, singles) in rep.explore(run, max_paths=40, timeout_ms=1500):
        bad = []
        for c in ("ns", "ew", "vt"):
            for k in range(nfft // 2 + 1):
                avg = sum((sg[c].amplitude[k] for sg in singles[1:]), singles[0][c].amplitude[k]) / nwin
                bad.append(Sym.lift(joint[c].amplitude[k]) != Sym.lift(avg))
        rep.prove(ctx, f"Welch: the PSD of {nwin} windows is the average of the single-window PSDs", bad, witness=wit(ss, {"nfft": nfft, "what": "welch"}), key="welch",
                  nlsat_first=True, timeout_ms=40000)


def run_homogeneity(rep, tier, nfft, L, smooth):
    Ld = LD(nfft)
    P, S = Ld["processing"], Ld["settings"]

    def run(ctx):
        s = PP.samples("r", L, ctx)
        c = Sym.var("c", ctx)
        a = call_rpsd(P, [PP.mkrec(Ld, ctx, "r", L, DT, comps=s)], psd_settings(S, nfft, smooth))
        b = call_rpsd(P, [PP.mkrec(Ld, ctx, "r", L, DT, comps=s, scale=c)], psd_settings(S, nfft, smooth))
        return s, c, a, b

    for ctx, (s, c, a, b) in rep.explore(run, max_paths=40, timeout_ms=1500):
        bad = [Sym.lift(y) != Sym.lift(x * c * c) for comp in ("ns", "ew", "vt") for x, y in zip(a[comp].amplitude, b[comp].amplitude)]
        rep.prove(ctx, f"PSD scales with the square of the signal amplitude (smoothing {'on' if smooth else 'off'})", bad, witness=wit([s], {"nfft": nfft, "what": "homogeneity", "c": c}),
                  key="psd-not-quadratic", nlsat_first=True, timeout_ms=40000)


def run_diffuse(rep, tier, nfft, L, nrec):
    Ld = LD(nfft)
    P, S = Ld["processing"], Ld["settings"]
    fcs, bws = C01.CFG[nfft]
    op, bw = "linear_triangular", bws["linear_triangular"]

    def run(ctx):
        ss = [PP.samples(f"r{i}", L, ctx) for i in range(nrec)]
        mk = lambda: [PP.mkrec(Ld, ctx, f"r{i}", L, DT, comps=ss[i]) for i in range(nrec)]
        psd = call_rpsd(P, mk(), psd_settings(S, nfft, False))
        st = S.HvsrDiffuseFieldProcessingSettings(**PP.settings_kwargs(op, bw, fcs, width=0.3, policy="keeping_majority_time_step"))
        df = C01.process(P, mk(), st)
        frq = np.fft.rfftfreq(nfft, DT)
        sm = PP.smooth_rows(Ld, op, frq, [[a + b for a, b in zip(psd["ns"].amplitude, psd["ew"].amplitude)], list(psd["vt"].amplitude)], fcs, bw)
        return ss, df, sm

    for ctx, (ss, df, sm) in rep.explore(run, max_paths=60, timeout_ms=1500):
        bad = []
        for j, g in enumerate(df.amplitude):
            arg = PP.sqrt_arg(g)
            bad.append(z3.BoolVal(True) if arg is None else (arg * Sym.lift(sm[1, j]) != Sym.lift(sm[0, j])))
        rep.prove(ctx, "diffuse-field HVSR^2 * Smooth(psd_vt) = Smooth(psd_ns + psd_ew) with the densities rpsd returns for the same windows", bad,
                  witness=wit(ss, {"nfft": nfft, "what": "diffuse"}), key="diffuse-vs-psd", nlsat_first=True, timeout_ms=40000)


def run_derivative(rep, tier, nfft):
    Ld = LD(nfft)
    IR = Ld["instrument_response"]
    TS = Ld["timeseries"].TimeSeries

    def run(ctx):
        A, B, D = Sym.var("A", ctx), Sym.var("B", ctx), Sym.var("D", ctx)
        k0 = 1
        if nfft == 4:
            cosv, sinv = [1, 0, -1, 0], [0, 1, 0, -1]
        else:
            h = models._twiddle(1, 1, 8)[0]      # sqrt(1/2) symbol
            cosv, sinv = [1, h, 0, -h, -1, -h, 0, h], [0, h, 1, h, 0, -h, -1, -h]
        x = np.array([D + A * cosv[j] + B * sinv[j] for j in range(nfft)], dtype=object)
        y = IR._differentiate(TS(x, DT), {"n": nfft})
        return A, B, D, cosv, sinv, y

    for ctx, (A, B, D, cosv, sinv, y) in rep.explore(run, max_paths=10):
        f0 = (1 / DT) / nfft
        w0 = qval(2 * np.pi * f0)
        bad = [Sym.lift(y.amplitude[j]) != Sym.lift((B * cosv[j] - A * sinv[j])) * w0 for j in range(nfft)]
        rep.prove(ctx, f"differentiation (n={nfft}): d/dt of D + A cos(w0 t) + B sin(w0 t) is w0 (B cos - A sin) sample by sample", bad,
                  witness=lambda m: {"kind": "derivative", "nfft": nfft, "A": concretiser(m)(A), "B": concretiser(m)(B), "D": concretiser(m)(D)}, key="spectral-derivative",
                  nlsat_first=True, timeout_ms=30000)
        rep.obligations += 1
        rep.discharged += int(y.dt_in_seconds == DT and len(y.amplitude) == nfft)


def run_flat(rep, tier, nfft, L):
    Ld = LD(nfft)
    IR = Ld["instrument_response"]
    TS = Ld["timeseries"].TimeSeries

    def run(ctx):
        x = symarray("x", (L,), ctx)
        itf = IR.InstrumentTransferFunction(poles=[], zeros=[], instrument_sensitivity=4.0, normalization_factor=0.5)
        y = IR._remove_instrument_response(TS(x, DT), itf, {"n": nfft})
        return x, y

    for ctx, (x, y) in rep.explore(run, max_paths=10):
        tot = sum(x[1:], x[0])
        bad = [Sym.lift(y.amplitude[j] * 2) != Sym.lift(x[j] - tot / nfft) for j in range(L)]
        rep.prove(ctx, f"flat response (n={nfft}, L={L}): output * sensitivity = input with the DC term of the transform removed", bad + [z3.BoolVal(len(y.amplitude) != L)],
                  witness=lambda m: {"kind": "flat", "nfft": nfft, "x": [concretiser(m)(v) for v in x]}, key="flat-response", nlsat_first=True, timeout_ms=30000)


def run_preprocess(rep, tier):
    """psd_preprocess with differentiate=True: mean removal, taper, then the spectral derivative, per component, no split."""
    Ld = LD(4)
    PR, S, IR = Ld["preprocessing"], Ld["settings"], Ld["instrument_response"]
    TS = Ld["timeseries"].TimeSeries

    def run(ctx):
        s = PP.samples("r", 4, ctx)
        rec = PP.mkrec(Ld, ctx, "r", 4, DT, comps=s)
        st = S.PsdPreProcessingSettings(orient_to_degrees_from_north=None, filter_corner_frequencies_in_hz=[None, None], window_length_in_seconds=None, detrend=None,
                                        window_type_and_width=["tukey", 0.3], fft_settings=None, instrument_transfer_function=None, differentiate=True)
        out = PR.preprocess([rec], st)
        taper = PP.taper_of(ctx, 4, 0.3)
        want = {}
        for c in ("ns", "ew", "vt"):
            mean = sum(s[c][1:], s[c][0]) / 4
            y = np.array([(s[c][j] - mean) * taper[j] for j in range(4)], dtype=object)
            want[c] = IR._differentiate(TS(y, DT), {"n": st.fft_settings["n"]}).amplitude
        return s, out, want, st

    for ctx, (s, out, want, st) in rep.explore(run, max_paths=10):
        bad = [z3.BoolVal(len(out) != 1)]
        if len(out) == 1:
            for c in ("ns", "ew", "vt"):
                bad += [Sym.lift(a) != Sym.lift(b) for a, b in zip(getattr(out[0], c).amplitude, want[c])]
        rep.prove(ctx, "psd_preprocess(differentiate): each component is the spectral derivative of the mean-removed, tapered series", bad,
                  witness=wit([s], {"nfft": 4, "what": "preprocess"}), key="psd-preprocess", nlsat_first=True, timeout_ms=30000)


# ----------------------------------------------------------------------------- concrete side
def replay(spec):
    import hvsrpy
    from hvsrpy import instrument_response as IR
    if spec["kind"] == "derivative":
        n = spec["nfft"]
        t = np.arange(n) * DT
        w0 = 2 * np.pi * (1 / DT) / n
        x = spec["D"] + spec["A"] * np.cos(w0 * t) + spec["B"] * np.sin(w0 * t)
        y = IR._differentiate(hvsrpy.TimeSeries(x, DT), {"n": n}).amplitude
        want = w0 * (spec["B"] * np.cos(w0 * t) - spec["A"] * np.sin(w0 * t))
        return {"reproduced": not np.allclose(y, want, atol=1e-9 * (1 + np.abs(want).max())), "key": "spectral-derivative", "detail": f"{y.tolist()} vs {want.tolist()}"}
    if spec["kind"] == "flat":
        x = np.array(spec["x"], dtype=float)
        itf = IR.InstrumentTransferFunction(poles=[], zeros=[], instrument_sensitivity=4.0, normalization_factor=0.5)
        y = IR._remove_instrument_response(hvsrpy.TimeSeries(x, DT), itf, {"n": spec["nfft"]}).amplitude
        want = (x - x.sum() / spec["nfft"]) / 2
        return {"reproduced": not np.allclose(y, want, atol=1e-9 * (1 + np.abs(want).max())), "key": "flat-response", "detail": f"{y.tolist()} vs {want.tolist()}"}
    hv, P, T, saved = C01._patched(spec)
    try:
        nfft = spec["nfft"]
        mk = lambda sc=1.0: [hv.SeismicRecording3C(*[hv.TimeSeries(np.array(r[c], dtype=float) * sc, DT) for c in ("ns", "ew", "vt")]) for r in spec["records"]]
        L = len(spec["records"][0]["ns"])
        tap = np.array(spec["taper"][str(L)], dtype=float)
        fcs, bws = C01.CFG[nfft]
        kw = dict(window_type_and_width=["tukey", 0.3], smoothing=dict(operator="linear_triangular", bandwidth=bws["linear_triangular"], center_frequencies_in_hz=list(fcs)))

        def psd_of(recs, smooth=False):
            st = hv.PsdProcessingSettings(**kw)
            if not smooth:
                st.smoothing = None
            return hv.rpsd(recs, st)
        what = spec["what"]
        if what == "settings-reuse":
            st = hv.PsdProcessingSettings(**kw)
            st.smoothing = None
            if spec.get("explicit"):
                st.fft_settings = {"n": 4}
            else:
                hv.rpsd([hv.SeismicRecording3C(*[hv.TimeSeries(np.array(spec["short"][c], dtype=float), DT) for c in ("ns", "ew", "vt")])], st)
            got, ref = hv.rpsd(mk(), st), psd_of(mk())
            for c in ("ns", "ew", "vt"):
                g, w_ = np.asarray(got[c].amplitude, dtype=float), np.asarray(ref[c].amplitude, dtype=float)
                if g.shape != w_.shape or not np.allclose(g, w_, rtol=1e-9, equal_nan=True):
                    return {"reproduced": True, "key": "fft-length-crops-windows",
                            "detail": f"{c}: PSD with {'explicit n=4' if spec.get('explicit') else 'settings reused after shorter windows'} (fft_settings {st.fft_settings}) has {g.tolist()}, with fresh settings {w_.tolist()}"[:400]}
            return {"reproduced": False, "detail": "same PSD as with fresh settings"}
        if what == "parseval":
            res = psd_of(mk())
            for c in ("ns", "ew", "vt"):
                y = np.array(spec["records"][0][c], dtype=float) * tap
                X = np.fft.rfft(y, n=nfft)
                lhs = res[c].amplitude[1:nfft // 2].sum() * (1 / DT) / nfft * np.mean(tap ** 2)
                rhs = np.mean(y ** 2) - (abs(X[0]) ** 2 + abs(X[-1]) ** 2) / (nfft * L)
                if not np.isclose(lhs, rhs, rtol=1e-9, atol=1e-12):
                    return {"reproduced": True, "key": "parseval", "detail": f"{c}: sum psd df mean(t^2) = {lhs} but tapered mean-square outside DC/Nyquist = {rhs}"}
            return {"reproduced": False, "detail": "Parseval holds"}
        if what == "welch":
            joint = psd_of(mk())
            singles = [psd_of([r]) for r in mk()]
            for c in ("ns", "ew", "vt"):
                if not np.allclose(joint[c].amplitude, np.mean([s[c].amplitude for s in singles], axis=0), rtol=1e-9, atol=1e-12):
                    return {"reproduced": True, "key": "welch", "detail": f"{c}: joint {joint[c].amplitude.tolist()} vs mean of singles"}
            return {"reproduced": False, "detail": "Welch holds"}
        if what == "homogeneity":
            a, b = psd_of(mk()), psd_of(mk(spec["c"]))
            for c in ("ns", "ew", "vt"):
                if not np.allclose(b[c].amplitude, a[c].amplitude * spec["c"] ** 2, rtol=1e-9, atol=1e-12):
                    return {"reproduced": True, "key": "psd-not-quadratic", "detail": f"{c}"}
            return {"reproduced": False, "detail": "quadratic"}
        if what == "diffuse":
            from hvsrpy.smoothing import SMOOTHING_OPERATORS
            psd = psd_of(mk())
            df = hv.process(mk(), hv.HvsrDiffuseFieldProcessingSettings(**kw))
            sm = SMOOTHING_OPERATORS["linear_triangular"](np.fft.rfftfreq(nfft, DT), np.array([psd["ns"].amplitude + psd["ew"].amplitude, psd["vt"].amplitude]),
                                                          np.array(fcs, dtype=float), bws["linear_triangular"])
            want = np.sqrt(sm[0] / sm[1])
            return {"reproduced": not np.allclose(df.amplitude, want, rtol=1e-9, equal_nan=True), "key": "diffuse-vs-psd", "detail": f"{np.asarray(df.amplitude).tolist()} vs {want.tolist()}"}
        if what == "preprocess":
            st = hv.PsdPreProcessingSettings(orient_to_degrees_from_north=None, filter_corner_frequencies_in_hz=[None, None], window_length_in_seconds=None, detrend=None,
                                             window_type_and_width=["tukey", 0.3], differentiate=True)
            out = hv.preprocess(mk(), st)
            for c in ("ns", "ew", "vt"):
                x = np.array(spec["records"][0][c], dtype=float)
                y = (x - x.mean()) * tap
                n = st.fft_settings["n"]
                want = np.fft.irfft(np.fft.rfft(y, n=n) * (2j * np.pi * np.fft.rfftfreq(n, DT)), n)[:L]
                if not np.allclose(getattr(out[0], c).amplitude, want, atol=1e-9):
                    return {"reproduced": True, "key": "psd-preprocess", "detail": f"{c}: {getattr(out[0], c).amplitude.tolist()} vs {want.tolist()}"}
            return {"reproduced": False, "detail": "as expected"}
        return {"reproduced": False, "detail": "unknown"}
    finally:
        C01._restore(P, T, saved)


def validate(spec):
    return {"ok": True, "skipped": True}
