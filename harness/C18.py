"""C18 - recordings persist exactly; copies are independent; trim keeps the right samples.

SYMX on symbolic samples: (a) save -> load (json replaced by a value-preserving capture: tuples -> lists, dict keys -> str, as
JSON does) after a solver-forked history of trim / filter (opaque) / detrend / taper / re-orientation restores the same sample
terms on the same components, the time step, the orientation and content-equal metadata;  (b) copies made by the copy
constructors, by split, and the components stored by the constructor share no sample storage with their source and carry
their own metadata dict (alias analysis of the heap of every explored path + a write after the copy);  (c) trim(start, end)
with symbolic times keeps exactly the samples from the one nearest to start through the one nearest to end (either neighbour
on an exact tie) and raises IndexError exactly for ranges outside the record.
"""
import copy

import numpy as np
import z3

from symx import loader, models
from symx.core import Sym, Ctx, symarray, qval, is_nan, OutsideClaim
from symx.report import fl, concretiser
from harness import pipeline as PP

FUNCTIONS_Q = ["seismic_recording_3c.SeismicRecording3C._to_dict", "seismic_recording_3c.SeismicRecording3C._from_dict",
               "seismic_recording_3c.SeismicRecording3C.save", "seismic_recording_3c.SeismicRecording3C.load",
               "seismic_recording_3c.SeismicRecording3C.from_seismic_recording_3c", "seismic_recording_3c.SeismicRecording3C.split",
               "seismic_recording_3c.SeismicRecording3C.trim", "seismic_recording_3c.SeismicRecording3C.__init__",
               "timeseries.TimeSeries.__init__", "timeseries.TimeSeries.from_timeseries", "timeseries.TimeSeries.split", "timeseries.TimeSeries.trim"]
STUBS = ["json.dump/json.load + open -> value-preserving capture (tuples -> lists, keys -> str)", "Butterworth -> opaque per-sample operator; detrend -> closed form; tukey -> arbitrary taper"]
ASSUMPTIONS = ["CPython repr(float) <-> float() round-trips exactly through json (a number-formatting fact, not decided here)", "floats as reals"]
OUTSIDE = ["bit-for-bit text round trip of floats through json", "more than 6 samples / 2 history steps"]
BOUNDS = {"quick": {"samples": "4-8", "history_steps": "0-2"}, "thorough": {"samples": "4-12", "history_steps": "0-3"}}
INSTANCE_TIMEOUT = {"quick": 230, "thorough": 700}
DT = 0.5
_L = None


def L():
    global _L
    if _L is None:
        _L = loader.load(["seismic_recording_3c", "timeseries"])
    return _L


def functions_encoded():
    return L().functions_encoded(FUNCTIONS_Q)


def instances(tier):
    out = [{"name": f"roundtrip_h{h}", "func": "run_roundtrip", "kwargs": {"steps": h, "n": 5}} for h in ([0, 1, 2] if tier == "quick" else [0, 1, 2, 3])]
    out += [{"name": "independence", "func": "run_independence", "kwargs": {}}]
    for n in ([4, 5, 6, 8] if tier == "quick" else [4, 5, 6, 8, 10, 12]):
        out.append({"name": f"trim_n{n}", "func": "run_trim", "kwargs": {"n": n}})
        out.append({"name": f"trim3c_n{n}", "func": "run_trim", "kwargs": {"n": n, "three": True}})
        out.append({"name": f"trim_twice_n{n}", "func": "run_trim_twice", "kwargs": {"n": n}})
    return out


class Capture:
    """json + open stand-ins: what is dumped is what is loaded, normalised the way JSON normalises containers."""

    def __init__(self):
        self.files = {}

    @staticmethod
    def norm(o):
        if isinstance(o, dict):
            return {str(k): Capture.norm(v) for k, v in o.items()}
        if isinstance(o, (list, tuple)):
            return [Capture.norm(v) for v in o]
        if isinstance(o, np.ndarray):
            raise TypeError("Object of type ndarray is not JSON serializable")
        return o

    def open(self, fname, mode="r"):
        cap = self

        class F:
            def __enter__(s):
                return (fname, mode)

            def __exit__(s, *a):
                return False
        return F()

    def dump(self, obj, f):
        self.files[f[0]] = Capture.norm(obj)

    def load(self, f):
        return copy.deepcopy(self.files[f[0]]) if False else Capture.norm(self.files[f[0]])


OPS = ["trim", "filter", "detrend", "window", "orient"]


def apply_op(r, op, ctx):
    if op == "trim":
        if r.ns.n_samples >= 4:
            r.trim(DT, (r.ns.n_samples - 2) * DT)
    elif op == "filter":
        r.butterworth_filter([0.1, 0.4])
    elif op == "detrend":
        r.detrend("linear")
    elif op == "window":
        r.window("tukey", 0.2)
    elif op == "orient":
        # target inside [0, 360): the constructor's modulo-360 normalisation on load is then the identity (C04 covers the rest)
        a = Sym.var("a", ctx, lo=0)
        ctx.assume(a.e < 360)
        r.orient_sensor_to(a)


def content_equal(a, b):
    if isinstance(a, (list, tuple)) and isinstance(b, (list, tuple)):
        return len(a) == len(b) and all(content_equal(x, y) for x, y in zip(a, b))
    if isinstance(a, dict) and isinstance(b, dict):
        return set(map(str, a)) == set(map(str, b)) and all(content_equal(v, b[k] if k in b else b[str(k)]) for k, v in a.items())
    if isinstance(a, Sym) or isinstance(b, Sym):
        return isinstance(a, Sym) and isinstance(b, Sym) and z3.eq(z3.simplify(a.e), z3.simplify(b.e)) or (a is b)
    return a == b


def run_roundtrip(rep, tier, steps, n):
    Ld = L()
    M = Ld["seismic_recording_3c"]
    R3 = M.SeismicRecording3C

    def run(ctx):
        s = PP.samples("r", n, ctx)
        r = PP.mkrec(Ld, ctx, "r", n, DT, comps=s, degrees=Sym.var("d", ctx, lo=0, hi=359), meta={"file name(s)": "x.mseed", "tags": ("a", 1)})
        hist = []
        for k in range(steps):
            op = OPS[ctx.choose(len(OPS), tag=f"op{k}")]
            hist.append(op)
            apply_op(r, op, ctx)
        cap = Capture()
        M.json, M.open = cap, cap.open
        try:
            r.save("f.json")
            r2 = R3.load("f.json")
        finally:
            del M.json, M.open
            import json as _json
            M.json = _json
        return s, hist, r, r2

    for ctx, (s, hist, r, r2) in rep.explore(run, max_paths=200 if tier == "quick" else 2000):
        W = lambda m: {"kind": "roundtrip", "history": hist, "n": n, "records": [{c: [concretiser(m)(v) for v in s[c]] for c in ("ns", "ew", "vt")}]}
        bad = []
        for c in ("ns", "ew", "vt"):
            a, b = getattr(r, c).amplitude, getattr(r2, c).amplitude
            if len(a) != len(b):
                bad.append(z3.BoolVal(True))
            else:
                bad += [Sym.lift(x) != Sym.lift(y) for x, y in zip(a, b)]
        bad.append(Sym.lift(r.degrees_from_north) != Sym.lift(r2.degrees_from_north))
        rep.prove(ctx, f"load(save(r)) after {hist}: same samples on the same components, same orientation", bad, witness=W, key="roundtrip-samples")
        rep.obligations += 1
        ok = (r.ns.dt_in_seconds == r2.ns.dt_in_seconds == r2.ew.dt_in_seconds == r2.vt.dt_in_seconds) and content_equal(r.meta, r2.meta)
        if ok:
            rep.discharged += 1
        else:
            r_, m = ctx.model()
            rep.candidate(W(m), f"load(save(r)) after {hist}: time step or metadata content differs: {r.meta} vs {r2.meta}"[:300], key="roundtrip-meta")
        rep.sample({"history": hist})


def shares(a, b):
    return bool(np.shares_memory(a, b))


def run_independence(rep, tier):
    Ld = L()
    TS = Ld["timeseries"].TimeSeries
    R3 = Ld["seismic_recording_3c"].SeismicRecording3C

    def run(ctx):
        n = 5
        s = PP.samples("r", n, ctx)
        src_ts = {c: TS(s[c], DT) for c in ("ns", "ew", "vt")}
        meta_in = {"k": [1, 2]}
        r = R3(src_ts["ns"], src_ts["ew"], src_ts["vt"], degrees_from_north=10.0, meta=meta_in)
        c1 = R3.from_seismic_recording_3c(r)
        c2 = TS.from_timeseries(r.ns)
        wins = r.split(2 * DT)
        findings = []
        # TimeSeries.split called directly, and the constructor given an existing array
        raw = np.array(list(s["vt"]), dtype=object)
        ts = TS(raw, DT)
        twins = ts.split(2 * DT)
        for j, w in enumerate(twins):
            if shares(w.amplitude, ts.amplitude):
                findings.append(f"TimeSeries.split window {j} shares storage with the series it was cut from")
            for w2 in twins[j + 1:]:
                if shares(w.amplitude, w2.amplitude):
                    findings.append("TimeSeries.split windows share storage with each other")
        if shares(ts.amplitude, raw):
            findings.append("TimeSeries stores the array it was given without copying")
        for c in ("ns", "ew", "vt"):
            if shares(getattr(r, c).amplitude, src_ts[c].amplitude) or shares(getattr(r, c).amplitude, s[c]):
                findings.append(f"constructor stores component {c} without copying")
            if shares(getattr(c1, c).amplitude, getattr(r, c).amplitude):
                findings.append(f"from_seismic_recording_3c shares {c} with its source")
            for j, w in enumerate(wins):
                if shares(getattr(w, c).amplitude, getattr(r, c).amplitude):
                    findings.append(f"split window {j} shares {c} with the record")
                for w2 in wins[j + 1:]:
                    if shares(getattr(w, c).amplitude, getattr(w2, c).amplitude):
                        findings.append(f"split windows share {c} storage")
        if shares(c2.amplitude, r.ns.amplitude):
            findings.append("from_timeseries shares storage with its source")
        if c1.meta is r.meta or any(w.meta is r.meta for w in wins) or r.meta is meta_in:
            findings.append("metadata dict shared between copy and source")
        # a write after the copy must not be visible on the other side
        before = [list(getattr(c1, c).amplitude) for c in ("ns", "ew", "vt")] + [list(c2.amplitude)] + [list(w.ns.amplitude) for w in wins]
        mark = Sym.var("mark", ctx)
        for c in ("ns", "ew", "vt"):
            getattr(r, c).amplitude[:] = mark
        after = [list(getattr(c1, c).amplitude) for c in ("ns", "ew", "vt")] + [list(c2.amplitude)] + [list(w.ns.amplitude) for w in wins]
        return s, findings, before, after, mark

    for ctx, (s, findings, before, after, mark) in rep.explore(run, max_paths=20):
        W = lambda m: {"kind": "independence", "what": findings[:3]}
        rep.obligations += 1
        if findings:
            rep.candidate(W(None), "; ".join(findings[:3]), key="copy-shares-storage")
        else:
            rep.discharged += 1
        bad = [Sym.lift(x) != Sym.lift(y) for a, b in zip(before, after) for x, y in zip(a, b)]
        rep.prove(ctx, "editing the source after copying never alters the copies", bad, witness=W, key="copy-shares-storage")


def run_trim(rep, tier, n, three=False):
    Ld = L()
    TS = Ld["timeseries"].TimeSeries

    def run(ctx):
        x = symarray("x", (n,), ctx)
        t0, t1 = Sym.var("start", ctx), Sym.var("end", ctx)
        if three:
            s = {c: (x if c == "ns" else symarray(c, (n,), ctx)) for c in ("ns", "ew", "vt")}
            obj = PP.mkrec(Ld, ctx, "r", n, DT, comps=s)
            get = lambda: obj.ns.amplitude
            others = lambda: (obj.ew.amplitude, obj.vt.amplitude, s)
        else:
            obj = TS(x, DT)
            get = lambda: obj.amplitude
            others = lambda: None
        try:
            obj.trim(t0, t1)
            res = ("ok", list(get()), others())
        except IndexError:
            res = ("IndexError", None, None)
        return x, t0, t1, res

    for ctx, (x, t0, t1, res) in rep.explore(run, max_paths=600 if tier == "quick" else 4000):
        W = lambda m: {"kind": "trim", "n": n, "x": [concretiser(m)(v) for v in x], "start": concretiser(m)(t0), "end": concretiser(m)(t1)}
        last = qval((n - 1) * DT)
        illegal = z3.Or(t0.e < 0, t0.e >= t1.e, t1.e > last)
        if res[0] == "IndexError":
            rep.prove(ctx, "trim refuses only ranges outside the record (start < 0, start >= end, end > duration)", z3.Not(illegal), witness=W, key="trim-spurious-error")
            continue
        rep.prove(ctx, "trim refuses every range outside the record", illegal, witness=W, key="trim-accepts-illegal-range")
        kept = res[1]
        # locate the kept slice in the original (same terms)
        idx = [next((j for j in range(n) if x[j] is v or z3.eq(Sym.lift(x[j]), Sym.lift(v))), None) for v in kept]
        rep.obligations += 1
        contiguous = bool(kept) and None not in idx and idx == list(range(idx[0], idx[0] + len(idx)))
        if not contiguous:
            r_, m = ctx.model()
            rep.candidate(W(m), f"trim result {kept} is not a contiguous run of the original samples", key="trim-wrong-samples")
            continue
        rep.discharged += 1
        i_s, i_e = idx[0], idx[-1]
        za = lambda e: z3.If(e >= 0, e, -e)
        worse_s = [za(qval(i_s * DT) - t0.e) > za(qval(k * DT) - t0.e) for k in range(n)]
        worse_e = [za(qval(i_e * DT) - t1.e) > za(qval(k * DT) - t1.e) for k in range(n)]
        rep.prove(ctx, "first kept sample is (one of) the nearest to start, last kept sample is (one of) the nearest to end", worse_s + worse_e, witness=W, key="trim-wrong-samples")
        if three and res[2] is not None:
            ew, vt, s = res[2]
            ok = len(ew) == len(kept) == len(vt) and all(a is b or z3.eq(Sym.lift(a), Sym.lift(b)) for a, b in zip(ew, s["ew"][i_s:i_e + 1])) \
                and all(a is b or z3.eq(Sym.lift(a), Sym.lift(b)) for a, b in zip(vt, s["vt"][i_s:i_e + 1]))
            rep.obligations += 1
            if ok:
                rep.discharged += 1
            else:
                r_, m = ctx.model()
                rep.candidate(W(m), "the three components are not trimmed alike", key="trim-components-differ")
        rep.sample({"n": n, "kept": [i_s, i_e]})


def run_trim_twice(rep, tier, n):
    """A second trim on the same object acts on the record as it now is: same outcome as on a freshly built series holding the
    kept samples (for which run_trim proves the meaning of trim)."""
    Ld = L()
    TS = Ld["timeseries"].TimeSeries

    def run(ctx):
        x = symarray("x", (n,), ctx)
        t0, t1, u0, u1 = (Sym.var(k, ctx) for k in ("start", "end", "start2", "end2"))
        obj = TS(x, DT)
        try:
            obj.trim(t0, t1)
        except IndexError:
            raise OutsideClaim("first trim refused")
        kept = list(obj.amplitude)
        fresh = TS(np.array(kept, dtype=object), DT)

        def second(o):
            try:
                o.trim(u0, u1)
                return ("ok", list(o.amplitude))
            except IndexError:
                return ("IndexError", None)
        return x, (t0, t1, u0, u1), kept, second(obj), second(fresh)

    for ctx, (x, ts, kept, a, b) in rep.explore(run, max_paths=500 if tier == "quick" else 4000):
        W = lambda m: {"kind": "trim-twice", "n": n, "x": [concretiser(m)(v) for v in x], "times": [concretiser(m)(v) for v in ts]}
        rep.obligations += 1
        same = a[0] == b[0] and (a[1] is None or (len(a[1]) == len(b[1]) and all(p is q or z3.eq(Sym.lift(p), Sym.lift(q)) for p, q in zip(a[1], b[1]))))
        if same:
            rep.discharged += 1
        else:
            r_, m = ctx.model()
            rep.candidate(W(m), f"second trim on the trimmed object gives {a[0]} {None if a[1] is None else len(a[1])} samples, on a fresh series of the kept samples {b[0]} {None if b[1] is None else len(b[1])}",
                          key="trim-after-trim")
        rep.sample({"n": n, "kept_after_first": len(kept)})


# ----------------------------------------------------------------------------- concrete side
def replay(spec):
    import hvsrpy, tempfile, os
    if spec["kind"] == "trim-twice":
        x = np.array(spec["x"], dtype=float) + np.arange(spec["n"]) * 1e-6
        t0, t1, u0, u1 = spec["times"]
        ts = hvsrpy.TimeSeries(x.copy(), DT)
        try:
            ts.trim(t0, t1)
        except IndexError:
            return {"reproduced": False, "detail": "first trim refused on the concrete witness"}
        fresh = hvsrpy.TimeSeries(ts.amplitude.copy(), DT)

        def second(o):
            try:
                o.trim(u0, u1)
                return ("ok", o.amplitude.tolist())
            except IndexError:
                return ("IndexError", None)
        a, b = second(ts), second(fresh)
        return {"reproduced": a != b, "key": "trim-after-trim", "detail": f"trim({t0},{t1}) then trim({u0},{u1}): same object -> {a[0]} {a[1]}, fresh series of the kept samples -> {b[0]} {b[1]}"[:400]}
    if spec["kind"] == "trim":
        x = np.array(spec["x"], dtype=float) + np.arange(spec["n"]) * 1e-6
        n = spec["n"]
        t0, t1 = spec["start"], spec["end"]
        ts = hvsrpy.TimeSeries(x.copy(), DT)
        illegal = t0 < 0 or t0 >= t1 or t1 > (n - 1) * DT
        try:
            ts.trim(t0, t1)
        except IndexError:
            return {"reproduced": not illegal, "key": "trim-spurious-error", "detail": f"IndexError for ({t0}, {t1}) on {n} samples at dt={DT}"}
        if illegal:
            return {"reproduced": True, "key": "trim-accepts-illegal-range", "detail": f"({t0}, {t1}) accepted"}
        t = np.arange(n) * DT
        got = ts.amplitude
        i_s = int(np.where(x == got[0])[0][0])
        i_e = i_s + len(got) - 1
        ok = np.array_equal(got, x[i_s:i_e + 1]) and abs(t[i_s] - t0) <= np.abs(t - t0).min() + 1e-15 and abs(t[i_e] - t1) <= np.abs(t - t1).min() + 1e-15
        return {"reproduced": not ok, "key": "trim-wrong-samples", "detail": f"trim({t0},{t1}) kept indices {i_s}..{i_e}"}
    if spec["kind"] == "roundtrip":
        rec = spec["records"][0]
        r = hvsrpy.SeismicRecording3C(*[hvsrpy.TimeSeries(np.array(rec[c], dtype=float) + 0.1 * np.arange(len(rec[c])) + np.pi, DT) for c in ("ns", "ew", "vt")],
                                      degrees_from_north=33.3, meta={"file name(s)": "x.mseed", "tags": ("a", 1)})
        # long enough record for the real filter
        big = hvsrpy.SeismicRecording3C(*[hvsrpy.TimeSeries(np.cumsum(np.random.default_rng(i).normal(size=400)), 0.05) for i in range(3)], degrees_from_north=33.3,
                                        meta={"file name(s)": "x.mseed", "tags": ("a", 1)})
        for op in spec["history"]:
            if op == "trim":
                big.trim(0.05, (big.ns.n_samples - 2) * 0.05)
            elif op == "filter":
                big.butterworth_filter([0.5, 4.0])
            elif op == "detrend":
                big.detrend("linear")
            elif op == "window":
                big.window("tukey", 0.2)
            elif op == "orient":
                big.orient_sensor_to(77.7)
        for obj in (r, big):
            p = tempfile.mktemp(suffix=".json")
            obj.save(p)
            o2 = hvsrpy.SeismicRecording3C.load(p)
            os.remove(p)
            for c in ("ns", "ew", "vt"):
                if not np.array_equal(getattr(obj, c).amplitude, getattr(o2, c).amplitude):
                    return {"reproduced": True, "key": "roundtrip-samples", "detail": f"{c} differs after save/load (history {spec['history']})"}
            if obj.ns.dt_in_seconds != o2.ns.dt_in_seconds or obj.degrees_from_north != o2.degrees_from_north:
                return {"reproduced": True, "key": "roundtrip-samples", "detail": "dt / orientation differs"}
            norm = lambda v: [norm(x) for x in v] if isinstance(v, (list, tuple)) else ({str(k): norm(x) for k, x in v.items()} if isinstance(v, dict) else v)
            if norm(obj.meta) != norm(o2.meta):
                return {"reproduced": True, "key": "roundtrip-meta", "detail": f"meta {obj.meta} vs {o2.meta}"[:300]}
        return {"reproduced": False, "detail": "round trip exact"}
    if spec["kind"] == "independence":
        x = np.arange(6.0)
        r = hvsrpy.SeismicRecording3C(*[hvsrpy.TimeSeries(x * f, DT) for f in (1, 2, 3)], meta={"k": [1, 2]})
        c1 = hvsrpy.SeismicRecording3C.from_seismic_recording_3c(r)
        c2 = hvsrpy.TimeSeries.from_timeseries(r.ns)
        wins = r.split(2 * DT)
        ts = hvsrpy.TimeSeries(np.arange(7.0), DT)
        twins = ts.split(2 * DT)
        snap = [c1.ns.amplitude.copy(), c2.amplitude.copy()] + [w.ns.amplitude.copy() for w in wins] + [w.amplitude.copy() for w in twins]
        r.ns.amplitude[:] = -9.0
        ts.amplitude[:] = -9.0
        now = [c1.ns.amplitude, c2.amplitude] + [w.ns.amplitude for w in wins] + [w.amplitude for w in twins]
        bad = any(not np.array_equal(a, b) for a, b in zip(snap, now)) or c1.meta is r.meta
        return {"reproduced": bool(bad), "key": "copy-shares-storage", "detail": "copy changed after editing the source" if bad else "independent"}
    return {"reproduced": False, "detail": "unknown"}


def validate(spec):
    return {"ok": True, "skipped": True}
