"""C07 - readers put the stored samples on the right components (partial: see OUTSIDE).

(a) CrossHair on the real read(): recording i receives its own file names, reader options and degrees_from_north for the four
    combinations scalar / per-recording; and on the real _arrange_traces with stub traces: channel codes ending in E/N/Z in
    any order give (ns, ew, vt) with the right payload, anything else raises ValueError.
(b) text formats (SAF, MiniShark, PEER), two steps because Python's `re` engine is C code and cannot run on a symbolic string:
    (i)  tokenisation decided by z3's string/regex theory on the patterns parsed from hvsrpy/regex.py at run time: every data
         line of the format grammar is matched at its start with the three capture groups equal to its three numerals; no
         header line is matched by a row pattern; each header pattern captures exactly its field's numeral;
    (ii) everything after tokenisation by SYMX: the real _read_saf / _read_minishark / _read_peer run on a file whose numerals are
         unique tokens that the module's float()/int() turn into symbolic values: component k of the result must be column k of
         the file for every channel-id permutation, with gain * conversion scaling, NORTH_ROT / +90 rule, PEER azimuth codes,
         explicit degrees_from_north, and header count != rows found => error; dt = 1/fs.
"""
import io
import itertools

import numpy as np
import z3

from symx import loader
from symx.core import Sym, Ctx, symarray, qval, is_nan
from symx.report import fl, concretiser
from symx.xh import crosshair_obligation, replay_counterexample, real_hvsrpy

FUNCTIONS_Q = ["data_wrangler.read", "data_wrangler.read_single", "data_wrangler._arrange_traces", "data_wrangler._check_npts",
               "data_wrangler._read_saf", "data_wrangler._read_minishark", "data_wrangler._read_peer"]
STUBS = ["read_single -> recorder (routing contracts)", "obspy traces -> stub objects with .meta.channel / .data / .stats.delta",
         "float()/int() of data_wrangler -> numeral token -> symbolic value (the regex engine itself runs on the concrete text)",
         "np.float32 storage -> object arrays (single-precision rounding is assumed, not checked)"]
ASSUMPTIONS = ["'to single precision' (float32 rounding of the integer text formats) is taken as given", "regex obligations bound the numeral length (<= 3 / 5 characters incl. sign)"]
OUTSIDE = ["miniSEED, SAC (both byte orders) and GCF decoding happens inside obspy (C / ctypes / struct parsing): it cannot be executed symbolically and a model of it "
           "would be a re-implementation; for those formats only what hvsrpy does after obspy.read is covered (trace arrangement)",
           "file-type sniffing order of read_single", "text files with more than 4 rows"]
BOUNDS = {"quick": {"files": "<= 3", "rows": "2-3", "numeral_length": 3, "channel_permutations": 6}, "thorough": {"files": "<= 3", "rows": "2-4", "numeral_length": 5, "channel_permutations": 6}}
INSTANCE_TIMEOUT = {"quick": 230, "thorough": 900}
_L = None


def L():
    global _L
    if _L is None:
        _L = loader.load(["data_wrangler"], shadow_int=True)
    return _L


def functions_encoded():
    return L().functions_encoded(FUNCTIONS_Q)


def instances(tier):
    out = [{"name": "crosshair_read_routing", "func": "run_xh", "kwargs": {"func": "read_routing", "twin": "read_routing_reach"}, "timeout": 300},
           {"name": "crosshair_arrange_traces", "func": "run_xh", "kwargs": {"func": "arrange", "twin": "arrange_reach"}, "timeout": 300},
           {"name": "crosshair_arrange_traces_mixed_prefixes", "func": "run_xh", "kwargs": {"func": "arrange_mixed", "twin": "arrange_mixed_reach"}, "timeout": 300}]
    for perm in itertools.permutations((0, 1, 2)):
        for rot in ("rot", "norot", "explicit"):
            if tier == "quick" and rot != "rot" and perm not in ((0, 1, 2), (0, 2, 1)):
                continue
            out.append({"name": f"saf_{''.join(map(str, perm))}_{rot}", "func": "run_saf", "kwargs": {"perm": list(perm), "rot": rot, "rows": 3}})
    out.append({"name": "saf_count_mismatch", "func": "run_saf", "kwargs": {"perm": [0, 1, 2], "rot": "rot", "rows": 3, "header_rows": 4}})
    out.append({"name": "minishark", "func": "run_mshark", "kwargs": {"rows": 3}})
    out.append({"name": "minishark_count_mismatch", "func": "run_mshark", "kwargs": {"rows": 2, "header_rows": 3}})
    for codes in (["UP", "090", "360"], ["000", "VER", "090"], ["HNE", "HNN", "HNZ"], ["045", "UP", "135"], ["270", "180", "UP"]):
        for order in ([(0, 1, 2)] if tier == "quick" else list(itertools.permutations((0, 1, 2)))[:3]):
            out.append({"name": f"peer_{'_'.join(codes)}_{''.join(map(str, order))}", "func": "run_peer", "kwargs": {"codes": codes, "order": list(order)}})
    # an explicit degrees_from_north (any value, 0 included) overrides what the PEER direction codes say
    for codes in (["045", "UP", "135"], ["HNE", "HNN", "HNZ"], ["UP", "090", "360"]):
        out.append({"name": f"peer_{'_'.join(codes)}_explicit", "func": "run_peer", "kwargs": {"codes": codes, "order": [0, 1, 2], "explicit": True}})
    for part in ("saf_row_expr", "mshark_row_expr", "headers"):
        for eol in ("\n", "\r\n"):
            out.append({"name": f"regex_{part}_{'crlf' if eol != chr(10) else 'lf'}", "func": "run_regex", "kwargs": {"part": part, "eol": eol}, "timeout": 280 if tier == "quick" else 900})
    return out


def run_xh(rep, tier, func, twin):
    crosshair_obligation(rep, "xhair/C07_read.py", func, twin=twin, timeout_s=90 if tier == "quick" else 240, key=f"c07:{func}")


# ----------------------------------------------------------------------------- (ii) SYMX on token-tagged files
class Tokens:
    """numeral text -> symbolic value; installs itself as float()/int() of the loaded data_wrangler module."""

    def __init__(self, ctx, mod):
        self.ctx, self.mod, self.table, self.next = ctx, mod, {}, 1001
        self.saved = (mod.__dict__.get("float"), mod.__dict__.get("int"))
        mod.float, mod.int = self.to_float, self.to_int

    def new(self, tag, concrete=None):
        txt = str(self.next)
        self.next += 1
        self.table[txt] = Sym(z3.Real(tag)) if concrete is None else concrete
        return txt

    def to_float(self, x=0.0):
        if isinstance(x, str) and x.strip() in self.table:
            v = self.table[x.strip()]
            return v
        if isinstance(x, Sym):
            return x
        return float(x)

    def to_int(self, x=0, *a):
        if isinstance(x, str) and x.strip() in self.table:
            return self.table[x.strip()]
        if isinstance(x, Sym):
            return x
        return int(x, *a)

    def restore(self):
        self.mod.float, self.mod.int = self.saved


def eq_terms(a, b):
    return [Sym.lift(x) != Sym.lift(y) for x, y in zip(a, b)] + [z3.BoolVal(len(a) != len(b))]


def run_saf(rep, tier, perm, rot, rows, header_rows=None):
    DW = L()["data_wrangler"]
    v_ch, n_ch, e_ch = perm            # column index of the vertical / north / east channel

    def run(ctx):
        tk = Tokens(ctx, DW)
        try:
            cols = [[tk.new(f"c{c}_{r}") for r in range(rows)] for c in range(3)]
            fs = tk.new("fs", concrete=Sym.var("fs", ctx, pos=True))
            rotv = tk.new("rot", concrete=Sym.var("north_rot", ctx, lo=0, hi=359))
            ids = {v_ch: "V", n_ch: "N", e_ch: "E"}
            text = "SESAME ASCII data format (saf) v. 1\n# header\nSAMP_FREQ = %s\nNDAT = %d\n" % (fs, header_rows or rows)
            text += "".join(f"CH{c}_ID = {ids[c]}\n" for c in range(3))
            if rot != "norot":
                text += f"NORTH_ROT = {rotv}\n"
            text += "####--------------------\n"
            for r in range(rows):
                text += f"{cols[0][r]} {cols[1][r]} {cols[2][r]}\n"
            try:
                rec = DW._read_saf(io.StringIO(text), degrees_from_north=Sym.var("deg", ctx, lo=0, hi=359) if rot == "explicit" else None)
                err = None
            except ValueError as e:
                rec, err = None, str(e)
            return tk, cols, rec, err, text
        finally:
            tk.restore()

    for ctx, (tk, cols, rec, err, text) in rep.explore(run, max_paths=20):
        W = lambda m: {"kind": "saf", "perm": perm, "rot": rot, "rows": rows, "header_rows": header_rows,
                       "deg": (concretiser(m)(z3.Real("deg")) if (m is not None and rot == "explicit") else None),
                       "north_rot": (concretiser(m)(z3.Real("north_rot")) if m is not None else None)}
        if header_rows is not None and header_rows != rows:
            rep.obligations += 1
            if err is not None and rec is None:
                rep.discharged += 1
            else:
                rep.candidate(W(None), "a sample count that disagrees with the header yields a recording instead of an error", key="count-mismatch-accepted")
            continue
        if rec is None:
            rep.obligations += 1
            if n_ch != 1 and e_ch != 1 and rot == "rot":
                rep.discharged += 1          # documented refusal: CH1 must be a horizontal when NORTH_ROT is used
            else:
                rep.candidate(W(None), f"well-formed SAF file refused: {err}", key="saf-refused")
            continue
        T = lambda c: [tk.table[t] for t in cols[c]]
        bad = eq_terms(rec.vt.amplitude, T(v_ch)) + eq_terms(rec.ns.amplitude, T(n_ch)) + eq_terms(rec.ew.amplitude, T(e_ch))
        rep.prove(ctx, f"SAF (V,N,E on columns {perm}): each component holds the samples of its channel's column", bad, witness=W, key="saf-components")
        fs = tk.table[str(1001 + 3 * rows)]
        rep.prove(ctx, "SAF: time step is 1/SAMP_FREQ on all three components", [Sym.lift(rec.ns.dt_in_seconds) * fs.e != 1, Sym.lift(rec.vt.dt_in_seconds) * fs.e != 1, Sym.lift(rec.ew.dt_in_seconds) * fs.e != 1], witness=W, key="saf-dt")
        if rot == "explicit":
            want = z3.Real("deg")
        elif rot == "norot":
            want = z3.RealVal(0)
        else:
            want = z3.Real("north_rot") + (0 if n_ch == 1 else 90)
        # the constructor stores the angle modulo 360
        k = z3.Int("turns")
        rep.prove(ctx, f"SAF: orientation = {'explicit degrees_from_north' if rot == 'explicit' else 'NORTH_ROT (+90 when CH1 is the east channel)' if rot == 'rot' else '0 without NORTH_ROT'} (mod 360)",
                  z3.ForAll([k], Sym.lift(rec.degrees_from_north) != want - 360 * z3.ToReal(k)) if False else z3.And(Sym.lift(rec.degrees_from_north) != want, Sym.lift(rec.degrees_from_north) != want - 360),
                  witness=W, key="saf-orientation")
        rep.sample({"format": "saf", "channel_columns": perm, "rot": rot})


def run_mshark(rep, tier, rows, header_rows=None):
    DW = L()["data_wrangler"]

    def run(ctx):
        tk = Tokens(ctx, DW)
        try:
            cols = [[tk.new(f"c{c}_{r}") for r in range(rows)] for c in range(3)]
            fs = tk.new("fs", concrete=Sym.var("fs", ctx, pos=True))
            gain = tk.new("gain", concrete=Sym.var("gain", ctx, pos=True))
            conv = tk.new("conv", concrete=Sym.var("conv", ctx, pos=True))
            text = f"#MiniShark\n#Sample rate (sps):\t{fs}\n#Gain:\t{gain}\n#Conversion factor:\t{conv}\n#Sample number:\t{header_rows or rows}\n#Data\n"
            for r in range(rows):
                text += f"{cols[0][r]}\t{cols[1][r]}\t{cols[2][r]}\n"
            try:
                rec = DW._read_minishark(io.StringIO(text), degrees_from_north=None)
                err = None
            except ValueError as e:
                rec, err = None, str(e)
            return tk, cols, rec, err
        finally:
            tk.restore()

    for ctx, (tk, cols, rec, err) in rep.explore(run, max_paths=20):
        W = lambda m: {"kind": "minishark", "rows": rows, "header_rows": header_rows}
        if header_rows is not None and header_rows != rows:
            rep.obligations += 1
            if rec is None and err is not None:
                rep.discharged += 1
            else:
                rep.candidate(W(None), "MiniShark: sample count disagreeing with the header is accepted", key="count-mismatch-accepted")
            continue
        if rec is None:
            rep.obligations += 1
            rep.candidate(W(None), f"well-formed MiniShark file refused: {err}", key="mshark-refused")
            continue
        g, c = z3.Real("gain"), z3.Real("conv")
        bad = []
        for comp, col in (("vt", 0), ("ns", 1), ("ew", 2)):
            for x, t in zip(getattr(rec, comp).amplitude, cols[col]):
                bad.append(Sym.lift(x) * g * c != tk.table[t].e)
            bad.append(z3.BoolVal(len(getattr(rec, comp).amplitude) != rows))
        rep.prove(ctx, "MiniShark: columns are vertical, north, east and every sample is divided by gain and conversion factor", bad, witness=W, key="mshark-components", nlsat_first=True)
        rep.prove(ctx, "MiniShark: dt = 1/sample rate, orientation 0", [Sym.lift(rec.ns.dt_in_seconds) * z3.Real("fs") != 1, Sym.lift(rec.degrees_from_north) != 0], witness=W, key="mshark-dt")
        rep.sample({"format": "minishark", "rows": rows})


def peer_expect(codes):
    """(index of ns, ew, vt among the three files, degrees_from_north) per the PEER conventions."""
    vt = next(i for i, c in enumerate(codes) if c in ("UP", "VER") or c[-1].lower() == "z")
    rest = [i for i in range(3) if i != vt]
    if codes[vt] in ("UP", "VER"):
        az = {i: int(codes[i]) for i in rest}
        rel = {i: (a - 360 if a > 180 else a) for i, a in az.items()}
        ns = min(rest, key=lambda i: (abs(rel[i]), rest.index(i)))
        ew = max(rest, key=lambda i: (abs(rel[i]), -rest.index(i)))
        return ns, ew, vt, float(az[ns] % 360)
    ns = next(i for i in rest if codes[i][-1] == "N")
    ew = next(i for i in rest if codes[i][-1] == "E")
    return ns, ew, vt, 0.0


def run_peer(rep, tier, codes, order, explicit=False):
    DW = L()["data_wrangler"]
    rows = 2
    codes = [codes[i] for i in order]

    def run(ctx):
        # PEER samples are written in scientific notation: the sample pattern captures text that numpy converts itself, so the
        # samples stay concrete here (distinct values per file / row) and the component routing is what is examined
        files, vals = [], []
        for i, code in enumerate(codes):
            v = [(i + 1) * 0.1 + r * 0.01 for r in range(rows)]
            vals.append(v)
            text = f"PEER NGA STRONG MOTION DATABASE RECORD\nEvent, 1/1/2000, Station, {code}\nACCELERATION TIME SERIES IN UNITS OF G\nNPTS=   {rows}, DT=   .0100 SEC\n"
            text += "  ".join("%.7E" % x for x in v) + "\n"
            files.append(io.StringIO(text))
        try:
            rec = DW._read_peer(files, degrees_from_north=Sym.var("deg", ctx, lo=0, hi=359)) if explicit else DW._read_peer(files)
            err = None
        except ValueError as e:
            rec, err = None, str(e)
        return vals, rec, err

    for ctx, (vals, rec, err) in rep.explore(run, max_paths=5):
        ns, ew, vt, deg = peer_expect(codes)
        if explicit:
            if rec is None:
                rep.obligations += 1
                rep.candidate({"kind": "peer", "codes": codes, "deg": 0.0}, f"PEER files with direction codes {codes} and an explicit orientation: error={err}", key="peer-components")
                continue
            W = lambda m: {"kind": "peer", "codes": codes, "deg": concretiser(m)(z3.Real("deg")) if m is not None else 0.0}   # noqa
            rep.prove(ctx, "PEER: an explicit degrees_from_north (0 included) is the orientation of the recording, whatever the direction codes say",
                      [Sym.lift(rec.degrees_from_north) != z3.Real("deg")], witness=W, key="peer-orientation")
            deg = rec.degrees_from_north   # the rest of the comparison below concerns the components
        rep.obligations += 1
        ok = rec is not None and np.allclose(np.asarray(rec.ns.amplitude, dtype=float), vals[ns]) and np.allclose(np.asarray(rec.ew.amplitude, dtype=float), vals[ew]) \
            and np.allclose(np.asarray(rec.vt.amplitude, dtype=float), vals[vt]) and (explicit or float(rec.degrees_from_north) == deg) and abs(float(rec.ns.dt_in_seconds) - 0.01) < 1e-15
        if ok:
            rep.discharged += 1
        else:
            rep.candidate({"kind": "peer", "codes": codes}, f"PEER files with direction codes {codes}: components / orientation not as the codes say "
                          f"(expected ns=file {ns}, ew=file {ew}, vt=file {vt}, {deg} deg; error={err})", key="peer-components")
        rep.sample({"format": "peer", "codes": codes})


# ----------------------------------------------------------------------------- (i) tokenisation by z3 strings
def run_regex(rep, tier, part, eol):
    import time
    from smt import regex2z3 as R
    P = R.load_patterns()
    maxlen = 3 if tier == "quick" else 5
    num = z3.Concat(z3.Option(z3.Re("-")), R.DIGITS)
    rep.paths += 1
    rep.completed += 1

    def decide(label, cons, key):
        s = z3.Solver()
        s.set("timeout", 90000)
        s.add(*cons)
        t0 = time.time()
        r = s.check()
        rep.solver_ms += (time.time() - t0) * 1000
        rep.obligations += 1
        if r == z3.unsat:
            rep.discharged += 1
        elif r == z3.sat:
            md = s.model()
            rep.candidate({"kind": "regex", "label": label, "model": {str(d): str(md[d]) for d in md.decls()}}, f"{label}: counterexample {md}", key=key)
        else:
            rep.inconclusive.append(f"{label}: unknown")

    for name, sep, eols in [x for x in (("saf_row_expr", [" "] if tier == "quick" else [" ", "\t"], [eol]), ("mshark_row_expr", ["\t"], [eol])) if x[0] == part]:
        pat = getattr(P, name)
        regex, groups = R.compile_pattern(pat)
        import re._parser as sp
        parsed = sp.parse(pat)
        for s_, eol in itertools.product(sep, eols):
            a, b, c = z3.String("a"), z3.String("b"), z3.String("c")
            line = z3.Concat(a, z3.StringVal(s_), b, z3.StringVal(s_), c, z3.StringVal(eol))
            base = [z3.InRe(x, num) for x in (a, b, c)] + [z3.Length(x) <= maxlen for x in (a, b, c)]
            decide(f"{name}: every data line 'n{s_!r}n{s_!r}n{eol!r}' is matched at its start", base + [z3.Not(z3.InRe(line, z3.Concat(regex, R.FULL)))], "row-not-matched")
            for gi, var in ((1, a), (2, b), (3, c)):
                g, rest = z3.String("g"), z3.String("rest")
                terms, cons = R.sequence_with_group(parsed, g, group_no=gi)
                decide(f"{name}: capture group {gi} is exactly numeral {gi} of the line ({s_!r}, {eol!r})", base + cons + [z3.Concat(*terms, rest) == line, g != var], "group-mismatch")
        # header lines are not data rows
        for hdr in ("NDAT = ", "SAMP_FREQ = ", "#Sample number:\t", "CH0_ID = "):
            h = z3.String("h")
            decide(f"{name}: header line '{hdr}<digits>' is not matched as a data row", [z3.InRe(h, z3.Concat(z3.Re(hdr), R.DIGITS, z3.Re("\n"))), z3.Length(h) <= 24,
                                                                                           z3.InRe(h, z3.Concat(regex, R.FULL))], "header-matched-as-row")
    for name, prefix in [] if part != "headers" else (("saf_npts_expr", "NDAT = "), ("saf_fs_expr", "SAMP_FREQ = "), ("mshark_npts_expr", "#Sample number:\t"), ("mshark_fs_expr", "#Sample rate (sps):\t"),
                         ("mshark_gain_expr", "#Gain:\t"), ("mshark_conversion_expr", "#Conversion factor:\t")):
        import re._parser as sp
        parsed = sp.parse(getattr(P, name))
        x, g, rest = z3.String("x"), z3.String("g"), z3.String("rest")
        for eol in (eol,):
            line = z3.Concat(z3.StringVal(prefix), x, z3.StringVal(eol))
            terms, cons = R.sequence_with_group(parsed, g)
            decide(f"{name}: captures exactly the field's numeral ({eol!r})", [z3.InRe(x, R.DIGITS), z3.Length(x) <= maxlen] + cons + [z3.Concat(*terms, rest) == line, g != x], "header-group-mismatch")
    rep.sample({"patterns": ["saf_row_expr", "mshark_row_expr", "saf_npts_expr", "saf_fs_expr", "mshark_*"], "numeral_length": maxlen})


# ----------------------------------------------------------------------------- concrete side
def replay(spec):
    if spec["kind"] == "crosshair":
        r = replay_counterexample(spec)
        if spec["func"].startswith("read_routing"):
            args = eval("(" + spec["args"] + ",)")
            per_deg, per_kw = args[1], args[2]
            r["key"] = "read-degrees-broadcast-follows-kwargs-type" if per_deg != per_kw else "read-routing"
            r["detail"] = f"read() with per-record degrees={per_deg}, per-record reader options={per_kw}: {r.get('detail', '')}"[:300]
        else:
            r["key"] = "arrange-traces"
        return r
    import io as _io
    hvsrpy = real_hvsrpy()
    from hvsrpy import data_wrangler as DW
    if spec["kind"] == "saf":
        v_ch, n_ch, e_ch = spec["perm"]
        rows = spec["rows"]
        cols = np.arange(3 * rows).reshape(3, rows) + 11
        ids = {v_ch: "V", n_ch: "N", e_ch: "E"}
        text = "SESAME ASCII data format (saf) v. 1\nSAMP_FREQ = 50\nNDAT = %d\n" % (spec.get("header_rows") or rows) + "".join(f"CH{c}_ID = {ids[c]}\n" for c in range(3))
        nrot = int(round(spec.get("north_rot") or 30)) or 30
        deg = spec.get("deg") if spec.get("deg") is not None else 12.0
        if spec["rot"] != "norot":
            text += f"NORTH_ROT = {nrot}\n"
        text += "####---\n" + "".join(f"{cols[0][r]} {cols[1][r]} {cols[2][r]}\n" for r in range(rows))
        try:
            rec = DW._read_saf(_io.StringIO(text), degrees_from_north=deg if spec["rot"] == "explicit" else None)
        except Exception as e:   # noqa
            bad = not (spec.get("header_rows") not in (None, rows))
            return {"reproduced": bad, "key": "saf-refused", "detail": f"{type(e).__name__}: {e}"[:200]}
        if spec.get("header_rows") not in (None, rows):
            return {"reproduced": True, "key": "count-mismatch-accepted", "detail": "recording returned although NDAT disagrees with the rows found"}
        want_deg = (deg % 360) if spec["rot"] == "explicit" else (0.0 if spec["rot"] == "norot" else (nrot + (0 if n_ch == 1 else 90)) % 360)
        ok = np.array_equal(rec.vt.amplitude, cols[v_ch]) and np.array_equal(rec.ns.amplitude, cols[n_ch]) and np.array_equal(rec.ew.amplitude, cols[e_ch]) \
            and abs(rec.ns.dt_in_seconds - 0.02) < 1e-15 and abs(rec.degrees_from_north - want_deg) < 1e-9
        return {"reproduced": not ok, "key": "saf-components" if abs(rec.degrees_from_north - want_deg) < 1e-9 else "saf-orientation", "detail": f"perm {spec['perm']} rot {spec['rot']} (explicit degrees {deg if spec['rot'] == 'explicit' else None}, NORTH_ROT {nrot}): expected orientation {want_deg}; ns {rec.ns.amplitude.tolist()} ew {rec.ew.amplitude.tolist()} vt {rec.vt.amplitude.tolist()} deg {rec.degrees_from_north}"}
    if spec["kind"] == "minishark":
        rows = spec["rows"]
        cols = (np.arange(3 * rows).reshape(3, rows) + 5) * 64
        text = f"#MiniShark\n#Sample rate (sps):\t250\n#Gain:\t4\n#Conversion factor:\t8\n#Sample number:\t{spec.get('header_rows') or rows}\n#Data\n"
        text += "".join(f"{cols[0][r]}\t{cols[1][r]}\t{cols[2][r]}\n" for r in range(rows))
        try:
            rec = DW._read_minishark(_io.StringIO(text))
        except Exception as e:   # noqa
            return {"reproduced": spec.get("header_rows") in (None, rows), "key": "mshark-refused", "detail": str(e)[:200]}
        if spec.get("header_rows") not in (None, rows):
            return {"reproduced": True, "key": "count-mismatch-accepted", "detail": "accepted"}
        ok = np.array_equal(rec.vt.amplitude, cols[0] / 32) and np.array_equal(rec.ns.amplitude, cols[1] / 32) and np.array_equal(rec.ew.amplitude, cols[2] / 32) and abs(rec.ns.dt_in_seconds - 0.004) < 1e-15
        return {"reproduced": not ok, "key": "mshark-components", "detail": f"ns {rec.ns.amplitude.tolist()} ew {rec.ew.amplitude.tolist()} vt {rec.vt.amplitude.tolist()}"}
    if spec["kind"] == "peer":
        codes = spec["codes"]
        files, vals = [], []
        for i, code in enumerate(codes):
            v = [(i + 1) * 0.1 + r * 0.01 for r in range(2)]
            vals.append(v)
            files.append(_io.StringIO(f"PEER NGA STRONG MOTION DATABASE RECORD\nEvent, 1/1/2000, Station, {code}\nACCELERATION TIME SERIES IN UNITS OF G\nNPTS=   2, DT=   .0100 SEC\n" + "  ".join("%.7E" % x for x in v) + "\n"))
        ns, ew, vt, deg = peer_expect(codes)
        try:
            rec = DW._read_peer(files, degrees_from_north=float(spec["deg"])) if spec.get("deg") is not None else DW._read_peer(files)
        except Exception as e:   # noqa
            return {"reproduced": True, "key": "peer-components", "detail": f"{type(e).__name__}: {e}"[:200]}
        if spec.get("deg") is not None:
            want = float(spec["deg"])
            if abs(float(rec.degrees_from_north) - want) > 1e-9:
                return {"reproduced": True, "key": "peer-orientation", "detail": f"PEER codes {codes} read with explicit degrees_from_north={want}: the recording has degrees_from_north={rec.degrees_from_north}"}
            deg = rec.degrees_from_north
        ok = np.allclose(rec.ns.amplitude, vals[ns]) and np.allclose(rec.ew.amplitude, vals[ew]) and np.allclose(rec.vt.amplitude, vals[vt]) and rec.degrees_from_north == deg
        return {"reproduced": not ok, "key": "peer-components", "detail": f"codes {codes}: ns {rec.ns.amplitude.tolist()} ew {rec.ew.amplitude.tolist()} vt {rec.vt.amplitude.tolist()} deg {rec.degrees_from_north} (expected files {ns},{ew},{vt}, {deg})"}
    if spec["kind"] == "regex":
        return {"reproduced": True, "key": "regex", "detail": spec.get("label", "")[:200] + " " + str(spec.get("model"))[:200]}
    return {"reproduced": False, "detail": "unknown kind"}


def validate(spec):
    return {"ok": True, "skipped": True}
