"""C14 - second sentence here (Monte-Carlo statistics); first sentence (Voronoi weights) in harness/C14_voronoi.py.

The real hvsr_spatial.montecarlo_fn and _statistics run with the random generator replaced by a stub whose normal() returns
mean + stddev * xi with xi arbitrary symbolic reals (every realisation at once), symbolic generator means / standard deviations
and positive symbolic weights, for the four generator x spatial distribution combinations: the returned mean and standard
deviation must be the reliability-weighted estimators of the realisations in the requested space, the returned realisations are in
linear units, the result is unchanged when all weights are multiplied by a constant, zero generating standard deviations give the
closed-form weighted (log-)mean, and the draws are taken generator by generator (n_realizations each) from the given generator.

The first sentence of C14 (Voronoi weights = nearest-sensor area fractions, culling, order / translation / scale
independence) is decided in harness/C14_voronoi.py: hvsrpy's own geometry code runs symbolically, Qhull and GEOS are
replaced by their contracts (see there).
"""
import numpy as np
import z3

from symx import loader
from symx.core import Sym, Ctx, symarray, qval, is_nan
from symx.report import fl, concretiser
from harness.pipeline import sqrt_arg
from harness import C14_voronoi as VOR

FUNCTIONS_Q = ["hvsr_spatial._statistics", "hvsr_spatial.montecarlo_fn"] + VOR.FUNCTIONS_Q
STUBS = VOR.STUBS + ["numpy.random.Generator.normal -> mean + stddev * xi, xi arbitrary symbolic reals (one per draw, in call order)",
         "exp/log uninterpreted with log(exp u) = u; sqrt uninterpreted (argument equality decided)"]
ASSUMPTIONS = ["floats as reals", "weights > 0"] + VOR.ASSUMPTIONS
OUTSIDE = ["the statistical quality of numpy's generator", "more than 3 generators x 3 draws"] + VOR.OUTSIDE
BOUNDS = {"quick": {"generators": "2-3", "draws": "2", "voronoi": VOR.BOUNDS["quick"]}, "thorough": {"generators": "2-3", "draws": "2-3", "voronoi": VOR.BOUNDS["thorough"]}}
INSTANCE_TIMEOUT = {"quick": 200, "thorough": 900}
COMBOS = [("lognormal", "lognormal"), ("normal", "normal"), ("lognormal", "normal"), ("normal", "lognormal")]
_L = None


def L():
    global _L
    if _L is None:
        _L = loader.load(["hvsr_spatial"])
    return _L


def functions_encoded():
    return L().functions_encoded(FUNCTIONS_Q)


def instances(tier):
    out = []
    for dg, ds in COMBOS:
        for r, n in ([(2, 2), (3, 2)] if tier == "quick" else [(2, 2), (3, 2), (2, 3), (3, 3)]):
            out.append({"name": f"mc_{dg}_{ds}_r{r}_n{n}", "func": "run_mc", "kwargs": {"dg": dg, "ds": ds, "r": r, "n": n}})
        out.append({"name": f"zero_std_{dg}_{ds}", "func": "run_zero", "kwargs": {"dg": dg, "ds": ds}})
    return out + VOR.instances(tier)


def run_voronoi(rep, tier, **kw):
    return VOR.run_voronoi(rep, tier, L=L, **kw)


class StubRng:
    def __init__(self, ctx, positive):
        self.ctx, self.calls, self.positive = ctx, [], positive

    def normal(self, mean, stddev, size=None):
        k = len(self.calls)
        n = int(size)
        xi = [Sym.var(f"xi{k}_{j}", self.ctx) for j in range(n)]
        draws = np.array([mean + stddev * x for x in xi], dtype=object)
        if self.positive:
            for d in draws:
                self.ctx.assume(d.e > 0)          # a normal generator feeding a lognormal spatial model must draw positive values
        self.calls.append((mean, stddev, n, draws))
        return draws


def spec_stats(rows, w):
    """reliability-weighted mean / variance of the rows (terms), weights w_r (terms), N draws per row"""
    N = len(rows[0])
    sw = sum(w[1:], w[0])
    nw = [x / sw for x in w]
    mean = sum((nw[r] * sum(rows[r][1:], rows[r][0]) for r in range(1, len(rows))), nw[0] * sum(rows[0][1:], rows[0][0])) / N
    num = None
    w2 = None
    for r, row in enumerate(rows):
        d = [(x - mean) * (x - mean) for x in row]
        t = nw[r] * sum(d[1:], d[0])
        num = t if num is None else num + t
        w2 = nw[r] * nw[r] if w2 is None else w2 + nw[r] * nw[r]
    return mean, (num / N) / (1 - w2 / N)


def space(x, dg, ds):
    if dg == "lognormal" and ds == "normal":
        return x.exp()
    if dg == "normal" and ds == "lognormal":
        return x.log()
    return x


def run_mc(rep, tier, dg, ds, r, n):
    HS = L()["hvsr_spatial"]

    def run(ctx):
        means = [Sym.var(f"m{i}", ctx) for i in range(r)]
        sds = [Sym.var(f"s{i}", ctx, lo=0) for i in range(r)]
        w = [Sym.var(f"w{i}", ctx, pos=True) for i in range(r)]
        c = 2.5            # a concrete factor keeps the identity polynomial in the weights (a symbolic factor is undecided by nlsat in the budget)
        rng = StubRng(ctx, positive=(dg == "normal" and ds == "lognormal"))
        out = HS.montecarlo_fn(means, sds, np.array(w, dtype=object), distribution_generators=dg, distribution_spatial=ds, n_realizations=n, rng=rng)
        rng2 = StubRng(ctx, positive=False)
        rng2.normal = lambda mean, stddev, size=None, _it=iter([cl[3] for cl in rng.calls]): next(_it)      # the same draws again
        out2 = HS.montecarlo_fn(means, sds, np.array([x * c for x in w], dtype=object), distribution_generators=dg, distribution_spatial=ds, n_realizations=n, rng=rng2)
        return means, sds, w, rng, out, out2

    for ctx, (means, sds, w, rng, (fn_mean, fn_std, real), (m2, s2, _)) in rep.explore(run, max_paths=60, timeout_ms=4000):
        W = lambda m: {"kind": "mc", "dg": dg, "ds": ds, "r": r, "n": n, "means": [concretiser(m)(x) for x in means], "sds": [concretiser(m)(x) for x in sds],
                       "w": [concretiser(m)(x) for x in w], "xi": [[concretiser(m)(z3.Real(f"xi{k}_{j}")) for j in range(n)] for k in range(r)]}
        # draw protocol: one call per generator, in order, n draws each, with that generator's parameters
        rep.obligations += 1
        ok = len(rng.calls) == r and all(cl[2] == n and cl[0] is means[i] and cl[1] is sds[i] for i, cl in enumerate(rng.calls))
        if ok:
            rep.discharged += 1
        else:
            rep.candidate(W(ctx.model()[1]), "draws are not taken generator by generator with that generator's mean / stddev / n_realizations", key="draw-protocol")
            continue
        rows = [[space(x, dg, ds) for x in cl[3]] for cl in rng.calls]
        mean_t, var_t = spec_stats(rows, w)
        got_mean = fn_mean.log() if ds == "lognormal" else fn_mean
        rep.prove(ctx, f"({dg},{ds}) mean is the weighted mean of the realisations in the spatial model's space (exponentiated for lognormal)", Sym.lift(got_mean) != mean_t.e,
                  witness=W, key="mc-mean", nlsat_first=True, timeout_ms=30000)
        arg = sqrt_arg(fn_std)
        rep.prove(ctx, f"({dg},{ds}) stddev^2 * (1 - sum (w_r/N)^2 N) = weighted sum of squared deviations", z3.BoolVal(True) if arg is None else arg != var_t.e, witness=W, key="mc-std",
                  nlsat_first=True, timeout_ms=40000)
        lin = [[x.exp() if dg == "lognormal" else x for x in cl[3]] for cl in rng.calls]
        bad = [Sym.lift(real[i, j]) != Sym.lift(lin[i][j]) for i in range(r) for j in range(n)]
        rep.prove(ctx, f"({dg},{ds}) the returned realisations are in linear units", bad, witness=W, key="mc-units")
        a2 = sqrt_arg(s2)
        rep.prove(ctx, f"({dg},{ds}) statistics unchanged when all weights are multiplied by a constant",
                  [Sym.lift(m2.log() if ds == "lognormal" else m2) != Sym.lift(got_mean), z3.BoolVal(True) if (arg is None or a2 is None) else a2 != arg], witness=W, key="mc-weight-scale",
                  nlsat_first=True, timeout_ms=40000)
        rep.sample({"generators": r, "draws": n, "distributions": [dg, ds]})


def run_zero(rep, tier, dg, ds):
    HS = L()["hvsr_spatial"]
    r, n = 2, 2

    def run(ctx):
        means = [Sym.var(f"m{i}", ctx, pos=(dg == "normal" and ds == "lognormal")) for i in range(r)]
        w = [Sym.var(f"w{i}", ctx, pos=True) for i in range(r)]
        rng = StubRng(ctx, positive=False)
        out = HS.montecarlo_fn(means, [0.0] * r, np.array(w, dtype=object), distribution_generators=dg, distribution_spatial=ds, n_realizations=n, rng=rng)
        return means, w, out

    for ctx, (means, w, (fn_mean, fn_std, real)) in rep.explore(run, max_paths=20, timeout_ms=4000):
        sw = sum(w[1:], w[0])
        t = [space(m, dg, ds) for m in means]
        closed = sum((t[i] * w[i] for i in range(1, r)), t[0] * w[0]) / sw
        got = fn_mean.log() if ds == "lognormal" else fn_mean
        rep.prove(ctx, f"({dg},{ds}) zero generating standard deviations give the closed-form weighted (log-)mean", Sym.lift(got) != closed.e,
                  witness=lambda m: {"kind": "zero", "dg": dg, "ds": ds, "means": [concretiser(m)(x) for x in means], "w": [concretiser(m)(x) for x in w]}, key="mc-zero-std",
                  nlsat_first=True, timeout_ms=30000)


# ----------------------------------------------------------------------------- concrete side
class _ReplayRng:
    def __init__(self, xi):
        self.xi, self.k = xi, 0

    def normal(self, mean, stddev, size=None):
        out = mean + stddev * np.array(self.xi[self.k][:size], dtype=float)
        self.k += 1
        return out


def replay(spec):
    if spec.get("kind") == "voronoi":
        return VOR.replay(spec)
    from hvsrpy import hvsr_spatial as HS
    dg, ds = spec["dg"], spec["ds"]
    if spec["kind"] == "zero":
        means, w = np.array(spec["means"], dtype=float), np.array(spec["w"], dtype=float)
        m, s, r = HS.montecarlo_fn(means, np.zeros_like(means), w, distribution_generators=dg, distribution_spatial=ds, n_realizations=3, rng=np.random.default_rng(1))
        t = np.exp(means) if (dg, ds) == ("lognormal", "normal") else (np.log(means) if (dg, ds) == ("normal", "lognormal") else means)
        want = np.sum(w * t) / np.sum(w)
        want = np.exp(want) if ds == "lognormal" else want
        return {"reproduced": not np.isclose(m, want, rtol=1e-9), "key": "mc-zero-std", "detail": f"{m} vs {want}"}
    means, sds, w = (np.array(spec[k], dtype=float) for k in ("means", "sds", "w"))
    xi = spec["xi"]
    n = spec["n"]
    m, s, real = HS.montecarlo_fn(means, sds, w, distribution_generators=dg, distribution_spatial=ds, n_realizations=n, rng=_ReplayRng(xi))
    x = np.array([means[i] + sds[i] * np.array(xi[i][:n]) for i in range(len(means))])
    t = np.exp(x) if (dg, ds) == ("lognormal", "normal") else (np.log(x) if (dg, ds) == ("normal", "lognormal") else x)
    nw = w / w.sum()
    mean = np.sum(nw[:, None] * t) / n
    var = (np.sum(nw[:, None] * (t - mean) ** 2) / n) / (1 - np.sum(nw ** 2) / n)
    wm = np.exp(mean) if ds == "lognormal" else mean
    lin = np.exp(x) if dg == "lognormal" else x
    if not np.isclose(m, wm, rtol=1e-9):
        return {"reproduced": True, "key": "mc-mean", "detail": f"({dg},{ds}) mean {m} vs weighted estimator {wm}"}
    if not np.isclose(s, np.sqrt(var), rtol=1e-9):
        return {"reproduced": True, "key": "mc-std", "detail": f"({dg},{ds}) stddev {s} vs weighted estimator {np.sqrt(var)}"}
    if not np.allclose(real, lin, rtol=1e-9):
        return {"reproduced": True, "key": "mc-units", "detail": "returned realisations are not in linear units"}
    m2, s2, _ = HS.montecarlo_fn(means, sds, w * 7.5, distribution_generators=dg, distribution_spatial=ds, n_realizations=n, rng=_ReplayRng(xi))
    if not (np.isclose(m, m2, rtol=1e-9) and np.isclose(s, s2, rtol=1e-9)):
        return {"reproduced": True, "key": "mc-weight-scale", "detail": f"weights x 7.5: ({m},{s}) -> ({m2},{s2})"}
    return {"reproduced": False, "detail": "estimators as specified"}


def validate(spec):
    if spec.get("kind") == "voronoi-contract":
        return VOR.validate(spec)
    return {"ok": True, "skipped": True}
