"""C10 - preprocessing applies the documented steps in order; windows tile the record.

O-fp  (direct SMT, QF_BVFP binary64, regenerated from the AST of TimeSeries.split at every run - the statements up to the
      assignment of samples_per_window are interpreted, if/else included): for every integer sampling rate fs and every window
      length w that is an exact multiple m of the time step (w*fs == m exactly, dt = 1/fs as the readers compute it) the number of
      sample intervals the code computes equals m; for every w with m <= w*fs <= m + 1 - 2^-16 it equals m (whole intervals);
      and int(N / k) == floor(N / k).
O-sym (SYMX, symbolic samples, concrete k per instance): window j is exactly x[j*k : j*k+k+1] (same terms), windows share their
      boundary sample, all three components are split alike, count / discarded tail / one-sample-short final window / error for
      a window longer than the record; the windows own their storage;
      order of steps with the Butterworth filter an opaque operator B (uninterpreted per output sample) and detrending the
      closed-form least-squares projector D: window j == D(split_j(B(R(x)))).
"""
import math

import numpy as np
import z3

from symx import loader, models
from symx.core import Sym, Ctx, symarray, qval, is_nan, UF_COSD, UF_SIND
from symx.report import fl, concretiser
from harness import pipeline as PP

FUNCTIONS_Q = ["timeseries.TimeSeries.split", "seismic_recording_3c.SeismicRecording3C.split", "preprocessing.hvsr_preprocess",
               "timeseries.TimeSeries.detrend", "timeseries.TimeSeries.butterworth_filter", "seismic_recording_3c.SeismicRecording3C.orient_sensor_to"]
STUBS = ["scipy.signal.butter/sosfiltfilt -> opaque operator: output sample j = B_cfg,n,j(x_0..x_{n-1}) uninterpreted", "scipy.signal.detrend -> closed-form least squares (constant / linear)",
         "cos/sin of the orientation angle -> cosd/sind uninterpreted"]
ASSUMPTIONS = ["O-fp: sampling rate is an integer number of Hz and dt = 1/fs in binary64 (as the readers compute it); w*fs == m exactly",
               "O-sym: floats as reals; window lengths chosen so that the sample count is exact in binary (k*0.5 s at dt = 0.5 s)"]
OUTSIDE = ["the Butterworth design and its edge effects (scipy)", "sampling rates that are not integers", "fs, m beyond the bit widths decided"]
BOUNDS = {"quick": {"fs_bits": 8, "m_bits": 8, "floor_bits": 6, "N_bits": 12, "k_bits": 6, "samples": "5-9", "k": "1-4"},
          "thorough": {"fs_bits": 10, "m_bits": 12, "floor_bits": 8, "N_bits": 14, "k_bits": 8, "samples": "5-13", "k": "1-6"}}
INSTANCE_TIMEOUT = {"quick": 280, "thorough": 1700}
DT = 0.5
_L = None


def L():
    global _L
    if _L is None:
        _L = loader.load(["preprocessing", "seismic_recording_3c", "timeseries", "settings"])
    return _L


def functions_encoded():
    return L().functions_encoded(FUNCTIONS_Q)


def instances(tier):
    out = [{"name": "fp_split_count", "func": "run_fp_count", "kwargs": {}, "timeout": 290 if tier == "quick" else 1700},
           {"name": "fp_split_floor", "func": "run_fp_count", "kwargs": {"which": "floor"}, "timeout": 290 if tier == "quick" else 1700},
           {"name": "fp_window_count", "func": "run_fp_nwin", "kwargs": {}, "timeout": 290 if tier == "quick" else 1700}]
    ns = [5, 6, 8, 9] if tier == "quick" else [5, 6, 7, 8, 9, 10, 12, 13]
    ks = [1, 2, 3, 4] if tier == "quick" else [1, 2, 3, 4, 5, 6]
    for n in ns:
        for k in ks:
            out.append({"name": f"tiling_N{n}_k{k}", "func": "run_tiling", "kwargs": {"n": n, "k": k}})
    for detrend in ("linear", "constant", None, "none"):
        for filt in ("band", "none"):
            out.append({"name": f"order_{detrend}_{filt}", "func": "run_order", "kwargs": {"detrend": detrend, "filt": filt, "n": 7, "k": 3}})
    out.append({"name": "order_two_records", "func": "run_order", "kwargs": {"detrend": "linear", "filt": "band", "n": 5, "k": 2, "nrec": 2}})
    # recordings with different time steps in one call: each is filtered at ITS sampling rate and split by ITS sample count
    out.append({"name": "order_two_records_two_time_steps", "func": "run_order", "kwargs": {"detrend": "linear", "filt": "band", "n": 5, "k": 2, "nrec": 2, "dts": [0.5, 0.25]}})
    out.append({"name": "order_two_records_two_time_steps_reversed", "func": "run_order", "kwargs": {"detrend": "constant", "filt": "band", "n": 5, "k": 2, "nrec": 2, "dts": [0.25, 0.5]}})
    return out


# ----------------------------------------------------------------------------- O-fp
def run_fp_count(rep, tier, which="exact"):
    from smt import fp_split as F
    b = BOUNDS[tier]
    try:
        cs, vs, src = (F.split_count_query if which == "exact" else F.split_floor_query)(b["fs_bits"] if which == "exact" else b["floor_bits"], b["m_bits"] if which == "exact" else b["floor_bits"])
    except F.Untranslatable as e:
        rep.paths += 1
        rep.completed += 1
        rep.obligations += 1
        rep.inconclusive.append(f"the sample-count computation of TimeSeries.split could not be encoded bit-precisely ({e}); not decided")
        return
    r = F.solve_both(cs, 270 if tier == "quick" else 1600, want_model=vs)
    rep.paths += 1
    rep.completed += 1
    rep.obligations += 1
    rep.solver_ms += 1000 * max(r.get("z3_s", 0), r.get("cvc5_s", 0))
    rep.notes.append(f"expression: {src}; z3={r['z3']} ({r.get('z3_s')} s) cvc5={r['cvc5']} ({r.get('cvc5_s')} s)")
    rep.sample({"expression": src, "fs_bits": b["fs_bits"], "m_bits": b["m_bits"], "z3": r["z3"], "cvc5": r["cvc5"], "model": r["model"]})
    if r["verdict"] == "unsat":
        rep.discharged += 1
        # vacuity: the antecedent (w*fs == m exactly) is satisfiable
        r2 = F.solve_both(cs[:-1], 60)
        rep.obligations += 1
        if r2["verdict"] == "sat":
            rep.discharged += 1
            rep.reach_ok += 1
        else:
            rep.inconclusive.append(f"reachability of the split-count query: {r2['verdict']}")
    elif r["verdict"] == "sat" and r["model"]:
        md = r["model"]
        rep.candidate({"kind": "fp_count", "which": which, "fs": md["fs"], "w": md["w"], "m": md["m"], "k_model": md["k"]},
                      f"a window of {md['w']} s at {md['fs']} Hz holds {md['m']} whole sample intervals but the code computes another count",
                      key="window-sample-count")
    else:
        rep.inconclusive.append(f"split sample count: {r['verdict']} (z3 {r['z3']}, cvc5 {r['cvc5']})")


def run_fp_nwin(rep, tier):
    from smt import fp_split as F
    b = BOUNDS[tier]
    cs, vs, src = F.window_count_query(b["N_bits"], b["k_bits"])
    r = F.solve_both(cs, 270 if tier == "quick" else 1600, want_model=vs)
    rep.paths += 1
    rep.completed += 1
    rep.obligations += 1
    rep.solver_ms += 1000 * max(r.get("z3_s", 0), r.get("cvc5_s", 0))
    rep.sample({"expression": src, "N_bits": b["N_bits"], "k_bits": b["k_bits"], "z3": r["z3"], "cvc5": r["cvc5"]})
    if r["verdict"] == "unsat":
        rep.discharged += 1
    elif r["verdict"] == "sat" and r["model"]:
        md = r["model"]
        rep.candidate({"kind": "fp_nwin", "N": md["N"], "k": md["k"]}, f"n_windows for N={md['N']}, k={md['k']} is {md['n_windows']}", key="window-count")
    else:
        rep.inconclusive.append(f"window count: {r['verdict']}")


# ----------------------------------------------------------------------------- O-sym
def run_tiling(rep, tier, n, k):
    Ld = L()
    TS = Ld["timeseries"].TimeSeries
    R3 = Ld["seismic_recording_3c"].SeismicRecording3C
    w = k * DT

    def run(ctx):
        s = PP.samples("r", n, ctx)
        rec = R3(*[TS(s[c], DT) for c in ("ns", "ew", "vt")], degrees_from_north=10.0, meta={"tag": "t"})
        try:
            wins = rec.split(w)
            err = None
        except ValueError as e:
            wins, err = None, str(e)
        return s, rec, wins, err

    for ctx, (s, rec, wins, err) in rep.explore(run, max_paths=10):
        W = lambda m: {"kind": "tiling", "n": n, "k": k, "ns": [concretiser(m)(x) for x in s["ns"]]}
        nwin_spec = n // k            # the code's rule: floor(N / k) windows, the last may end one sample past the record
        checks = []
        if k > n or nwin_spec < 1:
            checks.append(("a window longer than the record is an error", err is not None))
        else:
            checks.append(("no error for a window that fits", err is None))
            if wins is not None:
                checks.append(("number of windows = floor(N/k)", len(wins) == nwin_spec))
                checks.append(("discarded tail shorter than one window", n - 1 - (len(wins) * k) < k))
                ok_terms, ok_len, ok_share, ok_own, ok_meta = True, True, True, True, True
                for j, wdw in enumerate(wins):
                    for c in ("ns", "ew", "vt"):
                        a = getattr(wdw, c).amplitude
                        exp = list(s[c][j * k: j * k + k + 1])
                        ok_len &= (len(a) == k + 1) or (j == len(wins) - 1 and len(a) == k and j * k + k == n)
                        ok_terms &= len(a) == len(exp) and all(x is y or z3.eq(Sym.lift(x), Sym.lift(y)) for x, y in zip(a, exp))
                        ok_own &= not np.shares_memory(a, getattr(rec, c).amplitude)
                        if j + 1 < len(wins):
                            nxt = getattr(wins[j + 1], c).amplitude
                            ok_share &= len(a) == k + 1 and len(nxt) > 0 and (a[-1] is nxt[0] or z3.eq(Sym.lift(a[-1]), Sym.lift(nxt[0])))
                    ok_meta &= wdw.ns.dt_in_seconds == DT and wdw.degrees_from_north == rec.degrees_from_north and wdw.meta is not rec.meta
                checks += [("window j carries x[j*k : j*k+k+1] unaltered on all three components", ok_terms),
                           ("every window spans k+1 samples (only a final window ending with the record may be one short)", ok_len),
                           ("consecutive windows share exactly their boundary sample", ok_share),
                           ("windows own their sample storage", ok_own), ("windows carry dt / orientation and their own metadata dict", ok_meta)]
        for label, ok in checks:
            rep.obligations += 1
            if ok:
                rep.discharged += 1
            else:
                r, m = ctx.model()
                rep.candidate(W(m), f"N={n}, k={k}: {label} - violated", key="tiling:" + label.split()[0])
        rep.sample({"N": n, "k": k, "windows": None if wins is None else len(wins)})


def reference_pipeline(ctx, s, d, a, n, k, detrend, filt, corner, dt=DT):
    """D(split_j(B(R(x)))) with the same environment models."""
    c_, s_ = UF_COSD(z3.simplify(a.e - d)), UF_SIND(z3.simplify(a.e - d))
    ns = [s["ns"][j] * Sym(c_) + s["ew"][j] * Sym(s_) for j in range(n)]
    ew = [s["ew"][j] * Sym(c_) - s["ns"][j] * Sym(s_) for j in range(n)]
    comps = {"ns": np.array(ns, dtype=object), "ew": np.array(ew, dtype=object), "vt": np.array(list(s["vt"]), dtype=object)}
    if filt == "band":
        sos = models.opaque_butter(5, list(corner), "bandpass", fs=1 / dt, output="sos")
        comps = {c: models.opaque_sosfiltfilt(sos, v) for c, v in comps.items()}
    out = []
    for j in range(n // k):
        wd = {}
        for c, v in comps.items():
            seg = v[j * k: j * k + k + 1]
            if detrend in ("linear", "constant"):
                seg = models.sym_detrend(seg, type=detrend)
            wd[c] = seg
        out.append(wd)
    return out


def run_order(rep, tier, detrend, filt, n, k, nrec=1, dts=None):
    Ld = L()
    PR, S = Ld["preprocessing"], Ld["settings"]
    TS = Ld["timeseries"].TimeSeries
    R3 = Ld["seismic_recording_3c"].SeismicRecording3C
    corner = [0.1, 0.4] if filt == "band" else [None, None]

    def run(ctx):
        a = Sym.var("a", ctx)
        ss, recs = [], []
        for i in range(nrec):
            s = PP.samples(f"r{i}", n, ctx)
            ss.append(s)
            recs.append(R3(*[TS(s[c], DT if dts is None else dts[i]) for c in ("ns", "ew", "vt")], degrees_from_north=20.0))
        st = S.HvsrPreProcessingSettings(orient_to_degrees_from_north=a, filter_corner_frequencies_in_hz=list(corner), window_length_in_seconds=k * DT, detrend=detrend)
        out = PR.preprocess(recs, st)
        want = []
        for i, s in enumerate(ss):
            dt = DT if dts is None else dts[i]
            want += reference_pipeline(ctx, s, z3.RealVal(20), a, n, int(round(k * DT / dt)), detrend, filt, corner, dt=dt)
        return ss, a, out, want

    for ctx, (ss, a, out, want) in rep.explore(run, max_paths=20):
        W = lambda m: {"kind": "order", "detrend": detrend, "filt": filt, "n": n, "k": k, "nrec": nrec, "dts": dts, "a": concretiser(m)(a)}
        bad = [z3.BoolVal(len(out) != len(want))]
        if len(out) == len(want):
            for wdw, ref in zip(out, want):
                for c in ("ns", "ew", "vt"):
                    g = getattr(wdw, c).amplitude
                    if len(g) != len(ref[c]):
                        bad.append(z3.BoolVal(True))
                    else:
                        bad += [Sym.lift(x) != Sym.lift(y) for x, y in zip(g, ref[c])]
        rep.prove(ctx, f"windows = detrend_{detrend}(split(filter_{filt}(orient(record)))) for every window, in order", bad, witness=W, key="order-of-steps", timeout_ms=30000)
        # reachability twin: a different order of the steps gives different terms
        if detrend in ("linear", "constant") and len(out) == len(want) and len(want) > 1:
            s0 = ss[0]
            alt = models.sym_detrend(np.array(list(s0["vt"]), dtype=object), type=detrend)[0:k + 1]      # detrend the whole record, then split
            got = out[0].vt.amplitude if filt == "none" else None
            if got is not None:
                rep.obligations += 1
                if ctx.check(z3.Or([Sym.lift(x) != Sym.lift(y) for x, y in zip(got, alt)])) == z3.sat:
                    rep.discharged += 1
                    rep.reach_ok += 1
                else:
                    rep.inconclusive.append("twin: detrend-before-split is indistinguishable from the documented order (vacuous obligation?)")
        rep.sample({"detrend": detrend, "filter": filt, "windows": len(out)})


# ----------------------------------------------------------------------------- concrete side
def replay(spec):
    import hvsrpy
    from scipy.signal import butter, sosfiltfilt, detrend as sp_detrend
    if spec["kind"] == "fp_count":
        fs, w, m = spec["fs"], float(spec["w"]), spec["m"]
        from fractions import Fraction
        exact = Fraction(w) * fs
        if spec.get("which", "exact") == "exact" and exact != m:
            return {"reproduced": False, "detail": f"witness does not satisfy w*fs == m exactly ({w}*{fs} vs {m})"}
        if spec.get("which") == "floor" and not (m <= exact <= m + 1 - Fraction(1, 65536)):
            return {"reproduced": False, "detail": f"witness outside m <= w*fs <= m+1-2^-16 ({float(exact)} vs {m})"}
        ts = hvsrpy.TimeSeries(np.arange(float(3 * m + 5)), 1 / fs)
        wins = ts.split(w)
        k = wins[0].n_samples - 1
        if k != m:
            return {"reproduced": True, "key": "window-sample-count-truncated" if k < m else "window-sample-count-too-large",
                    "detail": f"split({w} s) at {fs} Hz gives windows of {k} sample intervals; {w} s holds {float(exact):.6f} i.e. {m} whole intervals of 1/{fs} s"}
        return {"reproduced": False, "detail": f"k = {k} = m"}
    if spec["kind"] == "fp_nwin":
        N, k = spec["N"], spec["k"]
        ts = hvsrpy.TimeSeries(np.arange(float(N)), 1.0)
        try:
            got = len(ts.split(float(k)))
        except ValueError:
            got = 0
        return {"reproduced": got != N // k, "key": "window-count", "detail": f"N={N} k={k}: {got} windows, floor(N/k)={N // k}"}
    if spec["kind"] == "tiling":
        n, k = spec["n"], spec["k"]
        x = np.array(spec["ns"], dtype=float) + np.arange(n) * 1e-3
        mk = lambda: hvsrpy.SeismicRecording3C(*[hvsrpy.TimeSeries(x * f, DT) for f in (1.0, 2.0, 3.0)])
        try:
            wins = mk().split(k * DT)
        except ValueError:
            return {"reproduced": k <= n, "key": "tiling:error", "detail": f"ValueError for N={n} k={k}"}
        if k > n:
            return {"reproduced": True, "key": "tiling:a", "detail": "no error for a window longer than the record"}
        if len(wins) != n // k:
            return {"reproduced": True, "key": "tiling:number", "detail": f"{len(wins)} windows for N={n} k={k}"}
        for j, wd in enumerate(wins):
            for comp, f in (("ns", 1.0), ("ew", 2.0), ("vt", 3.0)):
                if not np.array_equal(getattr(wd, comp).amplitude, (x * f)[j * k:j * k + k + 1]):
                    return {"reproduced": True, "key": "tiling:window", "detail": f"window {j} {comp}: {getattr(wd, comp).amplitude.tolist()} vs {(x * f)[j * k:j * k + k + 1].tolist()}"}
        return {"reproduced": False, "detail": "tiling as specified"}
    if spec["kind"] == "order":
        rng = np.random.default_rng(7)
        N, fs0 = 400, 20.0
        recs, refs = [], []
        a = float(spec.get("a", 30.0))
        for i in range(spec.get("nrec", 1)):
            fs = fs0 if not spec.get("dts") else fs0 * spec["dts"][0] / spec["dts"][i]
            k = int(round(100 * fs / fs0))
            x = {c: np.cumsum(rng.normal(size=N)) + 0.01 * np.arange(N) for c in ("ns", "ew", "vt")}
            recs.append(hvsrpy.SeismicRecording3C(*[hvsrpy.TimeSeries(x[c].copy(), 1 / fs) for c in ("ns", "ew", "vt")], degrees_from_north=20.0))
            th = np.radians(a - 20.0)
            y = {"ns": x["ns"] * np.cos(th) + x["ew"] * np.sin(th), "ew": x["ew"] * np.cos(th) - x["ns"] * np.sin(th), "vt": x["vt"]}
            if spec["filt"] == "band":
                sos = butter(5, [0.5, 4.0], "bandpass", fs=fs, output="sos")
                y = {c: sosfiltfilt(sos, v) for c, v in y.items()}
            for j in range(N // k):
                wd = {c: v[j * k:j * k + k + 1] for c, v in y.items()}
                if spec["detrend"] in ("linear", "constant"):
                    wd = {c: sp_detrend(v, type=spec["detrend"]) for c, v in wd.items()}
                refs.append(wd)
        st = hvsrpy.HvsrPreProcessingSettings(orient_to_degrees_from_north=a, filter_corner_frequencies_in_hz=[0.5, 4.0] if spec["filt"] == "band" else [None, None],
                                              window_length_in_seconds=100 / fs0, detrend=spec["detrend"], ignore_dissimilar_time_step_warning=True)
        out = hvsrpy.preprocess(recs, st)
        if len(out) != len(refs):
            return {"reproduced": True, "key": "order-of-steps", "detail": f"{len(out)} windows vs {len(refs)}"}
        for j, (wd, ref) in enumerate(zip(out, refs)):
            for c in ("ns", "ew", "vt"):
                g = getattr(wd, c).amplitude
                if len(g) != len(ref[c]) or not np.allclose(g, ref[c], rtol=1e-9, atol=1e-9):
                    return {"reproduced": True, "key": "order-of-steps", "detail": f"window {j} {c} differs from detrend(split(filter(orient(x)))) (max diff {np.max(np.abs(g[:len(ref[c])] - ref[c][:len(g)])):.3g})"}
        return {"reproduced": False, "detail": "order as documented"}
    return {"reproduced": False, "detail": "unknown kind"}


def validate(spec):
    return {"ok": True, "skipped": True}
