"""C09 - processing has no side effects on its inputs and is repeatable.

The real process() runs on records with symbolic samples and an arbitrary symbolic taper, for every method
family.  (1) frame: each input sample term after the call must equal the term before (a query per record: with a
symbolic taper an in-place taper is satisfiable at once), time step / orientation / metadata unchanged, settings
unchanged except the documented fft_settings['n'];  (2) repeatability: a second call on the same objects returns
the same terms;  (3) isolation: on every explored path the object graph of the result shares no mutable object
(ndarray buffer, list, dict) with the records or the settings.
"""
import copy

import numpy as np
import z3

from symx import loader, models
from symx.core import Sym, CSym, Ctx, symarray, qval, is_nan, OutsideClaim
from symx.report import fl, concretiser, real_witness
from harness import pipeline as PP
from harness import C01

FUNCTIONS_Q = ["processing.process", "processing.traditional_hvsr_processing", "processing.traditional_single_azimuth_hvsr_processing",
               "processing.traditional_rotdpp_hvsr_processing", "processing.azimuthal_hvsr_processing", "processing.diffuse_field_hvsr_processing",
               "processing.rpsd", "processing._rpds_single_component", "timeseries.TimeSeries.window", "seismic_recording_3c.SeismicRecording3C.window",
               "timeseries.TimeSeries.from_timeseries", "settings.Settings.attr_dict"]
STUBS = C01.STUBS
ASSUMPTIONS = ["floats as reals", "the taper is arbitrary (t_j in [0,1]) - an in-place taper is visible for every taper that is not identically 1"]
OUTSIDE = ["more than 2 records / 3 samples", "concurrent use of one record from several threads"]
BOUNDS = {"quick": {"samples": 3, "records": "1-2", "n_fft": 4, "methods": 7}, "thorough": {"samples": "3-4", "records": "1-2", "n_fft": [4, 8], "methods": 7}}
INSTANCE_TIMEOUT = {"quick": 200, "thorough": 900}
DT = 0.5
METHODS = ["geometric_mean", "maximum_horizontal_value", "single_azimuth", "rotdpp", "azimuthal", "diffuse_field", "psd", "psd_nosmooth"]


def LD(nfft=4):
    return PP.PL(floor=nfft, key="exact")


def functions_encoded():
    return LD().functions_encoded(FUNCTIONS_Q)


def instances(tier):
    out = []
    for m in METHODS:
        for nrec in (1, 2):
            if m in ("maximum_horizontal_value", "rotdpp") and nrec == 2:
                continue
            out.append({"name": f"{m}_r{nrec}", "func": "run_method", "kwargs": {"method": m, "nrec": nrec, "nfft": 4}})
    # two records whose time steps differ only by round-off (1/fs computed differently by two readers)
    for m in ("geometric_mean", "single_azimuth", "diffuse_field"):
        out.append({"name": f"{m}_near_equal_dt", "func": "run_method", "kwargs": {"method": m, "nrec": 2, "nfft": 4, "dts": [0.5, 0.49999999999999994]}})
    # numpy's own default for the FFT length given explicitly: fft_settings = {"n": None} (no padding)
    for m in ("geometric_mean", "azimuthal", "psd"):
        out.append({"name": f"{m}_fft_n_none", "func": "run_method", "kwargs": {"method": m, "nrec": 1, "nfft": 4, "fft": {"n": None}}})
    if tier == "thorough":
        for m in METHODS:
            out.append({"name": f"{m}_n8", "func": "run_method", "kwargs": {"method": m, "nrec": 1, "nfft": 8}})
    return out


def make_settings(S, method, nfft):
    fcs, bws = C01.CFG[nfft]
    kw = PP.settings_kwargs("linear_triangular", bws["linear_triangular"], fcs, width=0.3)
    if method in ("geometric_mean", "maximum_horizontal_value"):
        return S.HvsrTraditionalProcessingSettings(method_to_combine_horizontals=method, **kw)
    if method == "single_azimuth":
        return S.HvsrTraditionalSingleAzimuthProcessingSettings(azimuth_in_degrees=30.0, **kw)
    if method == "rotdpp":
        return S.HvsrTraditionalRotDppProcessingSettings(azimuths_in_degrees=[0.0, 60.0], ppth_percentile_for_rotdpp_computation=50.0, **kw)
    if method == "azimuthal":
        return S.HvsrAzimuthalProcessingSettings(azimuths_in_degrees=[0.0, 60.0], **kw)
    if method == "diffuse_field":
        kw["handle_dissimilar_time_steps_by"] = "keeping_majority_time_step"
        return S.HvsrDiffuseFieldProcessingSettings(**kw)
    if method == "psd":
        kw["handle_dissimilar_time_steps_by"] = "keeping_majority_time_step"
        return S.PsdProcessingSettings(**kw)
    if method == "psd_nosmooth":
        kw["handle_dissimilar_time_steps_by"] = "keeping_majority_time_step"
        st = S.PsdProcessingSettings(**kw)
        st.smoothing = None
        return st
    raise KeyError(method)


def snap_records(recs):
    return [{"ns": list(r.ns.amplitude), "ew": list(r.ew.amplitude), "vt": list(r.vt.amplitude),
             "dt": (r.ns.dt_in_seconds, r.ew.dt_in_seconds, r.vt.dt_in_seconds), "deg": r.degrees_from_north,
             "meta": copy.deepcopy(r.meta), "n": (r.ns.n_samples, r.ew.n_samples, r.vt.n_samples)} for r in recs]


def snap_settings(st):
    d = {}
    for k in st.attrs:
        v = getattr(st, k)
        d[k] = copy.deepcopy(v.tolist() if hasattr(v, "tolist") else v)
    return d


def out_terms(res):
    """flat list of the numeric cells of a result (HvsrTraditional / HvsrAzimuthal / HvsrDiffuseField / dict of Psd)."""
    if isinstance(res, dict):
        t = []
        for k in ("ns", "ew", "vt"):
            t += list(res[k].amplitude) + list(res[k].frequency)
        return t
    if hasattr(res, "hvsrs"):
        t = []
        for h in res.hvsrs:
            t += list(np.asarray(h.amplitude, dtype=object).flat)
        return t
    return list(np.asarray(res.amplitude, dtype=object).flat)


def mutable_ids(root, depth=6):
    """ids of mutable containers / array buffers reachable from root."""
    seen, out = set(), {}
    stack = [(root, 0, "")]
    while stack:
        o, d, path = stack.pop()
        if id(o) in seen or d > depth:
            continue
        seen.add(id(o))
        if isinstance(o, np.ndarray):
            base = o
            while isinstance(base.base, np.ndarray):
                base = base.base
            out[id(base)] = path
            if o.dtype == object:
                for i, v in enumerate(o.flat):
                    if isinstance(v, (list, dict, np.ndarray)):
                        stack.append((v, d + 1, f"{path}[{i}]"))
            continue
        if isinstance(o, (list, tuple)):
            if isinstance(o, list):
                out[id(o)] = path
            for i, v in enumerate(o):
                stack.append((v, d + 1, f"{path}[{i}]"))
        elif isinstance(o, dict):
            out[id(o)] = path
            for k, v in o.items():
                stack.append((v, d + 1, f"{path}[{k!r}]"))
        elif hasattr(o, "__dict__") and not isinstance(o, (type, Sym, CSym)) and type(o).__module__.startswith("hvsrpy"):
            for k, v in vars(o).items():
                stack.append((v, d + 1, f"{path}.{k}"))
    return out


def run_method(rep, tier, method, nrec, nfft, dts=None, fft="unset"):
    Ld = LD(nfft)
    P, S = Ld["processing"], Ld["settings"]
    L = 3 if fft == "unset" else 4          # with n = None the FFT length is the record length: a length the exact DFT model has

    def run(ctx):
        ss = [PP.samples(f"r{i}", L, ctx) for i in range(nrec)]
        recs = [PP.mkrec(Ld, ctx, f"r{i}", L, DT if dts is None else dts[i], comps=ss[i], degrees=15.0, meta={"file name(s)": f"f{i}", "note": [1, 2]}) for i in range(nrec)]
        st = make_settings(S, method, nfft)
        if fft != "unset":
            st.fft_settings = dict(fft)
        before_r, before_s = snap_records(recs), snap_settings(st)
        res1 = C01.process(P, recs, st)
        after_r, after_s = snap_records(recs), snap_settings(st)
        t1 = out_terms(res1)
        shared = None
        rid = mutable_ids(res1)
        iid = {}
        for i, r in enumerate(recs):
            iid.update({k: f"records[{i}]{v}" for k, v in mutable_ids(r).items()})
        iid.update({k: f"settings{v}" for k, v in mutable_ids(st).items()})
        shared = sorted((rid[k], iid[k]) for k in rid.keys() & iid.keys())
        try:
            res2 = C01.process(P, recs, st)
            t2 = out_terms(res2)
        except OutsideClaim:
            t2 = None
        return ss, before_r, after_r, before_s, after_s, t1, t2, shared

    for ctx, (ss, before_r, after_r, before_s, after_s, t1, t2, shared) in rep.explore(run, max_paths=80 if tier == "quick" else 400, timeout_ms=5000):
        rep.reachable(ctx)
        W = C01.witness_fn("sidefx", ss, {"method": method, "nfft": nfft, "dts": dts, "fft": None if fft == "unset" else dict(fft), "fft_given": fft != "unset"})
        # (1) frame on samples
        bad = []
        for b, a in zip(before_r, after_r):
            for c in ("ns", "ew", "vt"):
                if len(b[c]) != len(a[c]):
                    bad.append(z3.BoolVal(True))
                    continue
                for x, y in zip(b[c], a[c]):
                    if x is y:
                        continue
                    bad.append(Sym.lift(x) != Sym.lift(y))
        rep.prove(ctx, f"{method}: every sample of every input record is unchanged by process()", bad or [z3.BoolVal(False)], witness=W, key=f"samples-modified:{method}")
        # frame on dt / orientation / metadata / settings (concrete per path)
        for label, ok, key in (
            ("time step and orientation of the records unchanged", all(b["dt"] == a["dt"] and b["deg"] == a["deg"] and b["n"] == a["n"] for b, a in zip(before_r, after_r)), "dt-or-orientation-modified"),
            ("metadata of the records unchanged", all(b["meta"] == a["meta"] for b, a in zip(before_r, after_r)), f"record-meta-modified:{method}"),
            ("settings unchanged except fft_settings['n']", all(before_s[k] == after_s[k] for k in before_s if k != "fft_settings")
             and (after_s["fft_settings"] is None or set(after_s["fft_settings"]) <= {"n"} | set(before_s["fft_settings"] or {})), "settings-modified"),
            ("result shares no mutable object with the records or the settings", not shared, f"result-aliases-input:{method}"),
        ):
            rep.obligations += 1
            if ok:
                rep.discharged += 1
            else:
                r, m = ctx.model()
                if r == z3.sat:
                    spec = W(m)
                    spec["shared"] = [list(x) for x in (shared or [])][:4]
                    rep.candidate(spec, f"{method}: {label} - violated" + (f" ({shared[:2]})" if key.startswith("result-aliases") else ""), key=key)
        # (2) repeatability
        if t2 is not None:
            bad2 = [Sym.lift(a) != Sym.lift(b) for a, b in zip(t1, t2)] if len(t1) == len(t2) else [z3.BoolVal(True)]
            rep.prove(ctx, f"{method}: a second process() call on the same objects returns the same result", bad2, witness=W, key=f"not-repeatable:{method}", nlsat_first=False, timeout_ms=15000,
                      shape=[z3.And(v.e >= qval(0.5) + qval(0.25) * j, v.e <= 3 + qval(0.25) * j) for s_ in ss for c in ("ns", "ew", "vt") for j, v in enumerate(s_[c])])   # witness shaping: no zero spectra
        if len(rep.samples) < 1:
            rep.sample({"method": method, "records": nrec, "shared_with_inputs": shared[:3]})


# ----------------------------------------------------------------------------- concrete side
def _settings(hvsrpy, spec):
    fcs, bws = C01.CFG[spec["nfft"]]
    kw = dict(window_type_and_width=["tukey", 0.3], smoothing=dict(operator="linear_triangular", bandwidth=bws["linear_triangular"], center_frequencies_in_hz=list(fcs)))
    m = spec["method"]
    if m in ("geometric_mean", "maximum_horizontal_value"):
        return hvsrpy.HvsrTraditionalProcessingSettings(method_to_combine_horizontals=m, **kw)
    if m == "single_azimuth":
        return hvsrpy.HvsrTraditionalSingleAzimuthProcessingSettings(azimuth_in_degrees=30.0, **kw)
    if m == "rotdpp":
        return hvsrpy.HvsrTraditionalRotDppProcessingSettings(azimuths_in_degrees=[0.0, 60.0], ppth_percentile_for_rotdpp_computation=50.0, **kw)
    if m == "azimuthal":
        return hvsrpy.HvsrAzimuthalProcessingSettings(azimuths_in_degrees=[0.0, 60.0], **kw)
    if m == "diffuse_field":
        return hvsrpy.HvsrDiffuseFieldProcessingSettings(**kw)
    st = hvsrpy.PsdProcessingSettings(**kw)
    if m == "psd_nosmooth":
        st.smoothing = None
    return st


def _cells(res):
    if isinstance(res, dict):
        return np.concatenate([np.asarray(res[k].amplitude, dtype=float) for k in ("ns", "ew", "vt")])
    if hasattr(res, "hvsrs"):
        return np.concatenate([np.asarray(h.amplitude, dtype=float).ravel() for h in res.hvsrs])
    return np.asarray(res.amplitude, dtype=float).ravel()


def replay(spec):
    hvsrpy, P, T, saved = C01._patched(spec)
    try:
        dts = spec.get("dts") or [DT] * len(spec["records"])
        recs = [hvsrpy.SeismicRecording3C(*[hvsrpy.TimeSeries(np.array(r[c], dtype=float), dts[i]) for c in ("ns", "ew", "vt")], degrees_from_north=15.0,
                                          meta={"file name(s)": "f", "note": [1, 2]}) for i, r in enumerate(spec["records"])]
        st = _settings(hvsrpy, spec)
        if spec.get("fft_given"):
            st.fft_settings = dict(spec["fft"])
        before = [(r.ns.amplitude.copy(), r.ew.amplitude.copy(), r.vt.amplitude.copy(), copy.deepcopy(r.meta), r.degrees_from_north, (r.ns.dt_in_seconds, r.ew.dt_in_seconds, r.vt.dt_in_seconds)) for r in recs]
        sb = copy.deepcopy({k: (getattr(st, k).tolist() if hasattr(getattr(st, k), "tolist") else getattr(st, k)) for k in st.attrs})
        res1 = hvsrpy.process(recs, st)
        c1 = _cells(res1).copy()
        m = spec["method"]
        for r, b in zip(recs, before):
            for a, bb, nm in zip((r.ns.amplitude, r.ew.amplitude, r.vt.amplitude), b[:3], ("ns", "ew", "vt")):
                if len(a) != len(bb) or not np.array_equal(a, bb):
                    return {"reproduced": True, "key": f"samples-modified:{m}", "detail": f"{m}: {nm} was {bb.tolist()} and is {a.tolist()} after process()"}
        for r, b in zip(recs, before):
            if r.meta != b[3]:
                return {"reproduced": True, "key": f"record-meta-modified:{m}", "detail": f"{m}: record.meta gained/changed {sorted(set(r.meta) ^ set(b[3])) or 'values'}"}
            if r.degrees_from_north != b[4] or (r.ns.dt_in_seconds, r.ew.dt_in_seconds, r.vt.dt_in_seconds) != b[5]:
                return {"reproduced": True, "key": "dt-or-orientation-modified", "detail": f"time step {b[5]} -> {(r.ns.dt_in_seconds, r.ew.dt_in_seconds, r.vt.dt_in_seconds)} / orientation {b[4]} -> {r.degrees_from_north}"}
        sa = {k: (getattr(st, k).tolist() if hasattr(getattr(st, k), "tolist") else getattr(st, k)) for k in st.attrs}
        if any(sa[k] != sb[k] for k in sb if k != "fft_settings"):
            return {"reproduced": True, "key": "settings-modified", "detail": f"settings changed: {[k for k in sb if sa[k] != sb[k]]}"}
        res2 = hvsrpy.process(recs, st)
        if _cells(res2).shape != c1.shape or not np.allclose(_cells(res2), c1, rtol=1e-12, atol=0, equal_nan=True):
            return {"reproduced": True, "key": f"not-repeatable:{m}", "detail": f"{m}: second call differs: {c1.tolist()} vs {_cells(res2).tolist()}"[:300]}
        # isolation: mutate inputs afterwards
        meta = res1["ns"].meta if isinstance(res1, dict) and hasattr(res1["ns"], "meta") else getattr(res1, "meta", {})
        snap = copy.deepcopy(meta)
        st.window_type_and_width[1] = 0.77
        if isinstance(st.smoothing, dict):
            st.smoothing["center_frequencies_in_hz"][0] = 0.123
        for r in recs:
            r.ns.amplitude[:] = 7.0
            r.meta["note"].append(3)
        if meta != snap or not np.allclose(_cells(res1), c1, equal_nan=True):
            ch = [k for k in snap if meta.get(k) != snap[k]]
            return {"reproduced": True, "key": f"result-aliases-input:{m}", "detail": f"{m}: result changed after the inputs were modified (meta keys {ch})"}
        return {"reproduced": False, "detail": "no side effect observed on the real library"}
    finally:
        C01._restore(P, T, saved)


def validate(spec):
    return {"ok": True, "skipped": True}
