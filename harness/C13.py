"""C13 - time-domain rejection keeps exactly the windows that satisfy the criterion.

The real sta_lta_window_rejection / maximum_value_window_rejection run on windows with symbolic samples and symbolic
limits / thresholds.  On every solver-enumerated path the keep/reject decision of each window is concrete; it must be
consistent with the criterion written here (a kept window has no ratio strictly outside the limits, a rejected window does
not have all ratios strictly inside - nothing is demanded at ratio == limit), the returned list must be the kept windows
as the same objects in order, and an attached traditional / azimuthal object must end with masks equal to the selection.
Locality, common-scale invariance, monotonicity in the limits and component conjunction are checked by running the
function twice on the same path.
"""
import itertools

import numpy as np
import z3
from harness import pipeline as PP

from symx import loader
from symx.core import Sym, Ctx, symarray, qval, is_nan
from symx.report import fl, concretiser

FUNCTIONS_Q = ["window_rejection.sta_lta_window_rejection", "window_rejection.maximum_value_window_rejection"]
STUBS = ["matplotlib/pandas/IPython -> recorders (import only)", "np.mean / np.max / reshape are numpy's own code on the symbolic arrays",
         "np.isclose / np.allclose on symbolic values -> the documented inequality over the reals (fork)"]
ASSUMPTIONS = ["floats as reals", "STA/LTA lengths are concrete per instance (the chunk length int(seconds // dt) is computed by the code itself)"]
OUTSIDE = ["the value of int(seconds // dt) for lengths that are not exactly representable (observed, not asserted: the property does not fix it)",
           "LTA = 0 (division by zero: degenerate path)", "more than 3 windows / 6 samples"]
BOUNDS = {"quick": {"windows": "1-3", "samples": "4-6", "component_subsets": 7, "chunks": "2-3"},
          "thorough": {"windows": "1-3", "samples": "4-9", "component_subsets": 7, "chunks": "2-4"}}
INSTANCE_TIMEOUT = {"quick": 230, "thorough": 700}
DT = 0.5
COMPS = ("ns", "ew", "vt")
SUBSETS = [c for r in (1, 2, 3) for c in itertools.combinations(COMPS, r)]
_L = None


def L():
    global _L
    if _L is None:
        _L = loader.load(["window_rejection", "seismic_recording_3c", "timeseries"])
    return _L


def functions_encoded():
    return L().functions_encoded(FUNCTIONS_Q)


def instances(tier):
    out = []
    for comps in SUBSETS:
        tag = "".join(c[0] for c in comps)
        nw = 2 if (len(comps) == 1 and tier == "thorough") or comps == ("ns",) else 1
        out.append({"name": f"stalta_{tag}_w{nw}", "func": "run_stalta", "kwargs": {"comps": list(comps), "nwin": nw, "n": 4, "sta": 1.0, "lta": 2.0, "attach": "none"}})
    # LTA length that is not a whole number of STA blocks, and an LTA shorter than two STA blocks
    out.append({"name": "stalta_n6_lta_not_multiple", "func": "run_stalta", "kwargs": {"comps": ["ns"], "nwin": 1, "n": 6, "sta": 1.0, "lta": 1.5, "attach": "none"}})
    out.append({"name": "stalta_n6_sta3_lta4", "func": "run_stalta", "kwargs": {"comps": ["ew"], "nwin": 1, "n": 6, "sta": 1.5, "lta": 2.0, "attach": "none"}})
    out.append({"name": "stalta_n6_lta_shorter_than_sta", "func": "run_stalta", "kwargs": {"comps": ["ns"], "nwin": 1, "n": 6, "sta": 1.0, "lta": 0.5, "attach": "none"}})
    out.append({"name": "stalta_n6_lta5", "func": "run_stalta", "kwargs": {"comps": ["vt"], "nwin": 1, "n": 6, "sta": 1.0, "lta": 2.5, "attach": "none"}})
    out.append({"name": "stalta_n6_three_chunks", "func": "run_stalta", "kwargs": {"comps": ["vt"], "nwin": 1, "n": 6, "sta": 1.0, "lta": 2.0, "attach": "none"}})
    if tier == "thorough":
        out.append({"name": "stalta_w3", "func": "run_stalta", "kwargs": {"comps": ["ns"], "nwin": 3, "n": 4, "sta": 1.0, "lta": 2.0, "attach": "traditional"}})
        out.append({"name": "stalta_nv_w2", "func": "run_stalta", "kwargs": {"comps": ["ns", "vt"], "nwin": 2, "n": 4, "sta": 1.0, "lta": 2.0, "attach": "azimuthal"}})
    for attach in ("traditional", "azimuthal"):
        out.append({"name": f"stalta_attach_{attach}", "func": "run_stalta", "kwargs": {"comps": ["vt"], "nwin": 2, "n": 4, "sta": 1.0, "lta": 2.0, "attach": attach}})
        out.append({"name": f"maxval_attach_{attach}", "func": "run_maxval", "kwargs": {"comps": ["ns", "vt"], "nwin": 2, "n": 2, "normalized": True, "attach": attach}})
    for rel in ("locality", "locality_lengths", "scale", "widen", "conjunction"):
        out.append({"name": f"stalta_{rel}", "func": "run_stalta_relation", "kwargs": {"rel": rel}})
    for comps in ([("ns",), ("ew", "vt"), COMPS] if tier == "quick" else SUBSETS):
        for normalized in (True, False):
            out.append({"name": f"maxval_{''.join(c[0] for c in comps)}_{int(normalized)}", "func": "run_maxval",
                        "kwargs": {"comps": list(comps), "nwin": 2, "n": 2 if len(comps) < 3 else 1, "normalized": normalized, "attach": "none"}})
    if tier == "thorough":
        out.append({"name": "stalta_n9", "func": "run_stalta", "kwargs": {"comps": ["ns"], "nwin": 1, "n": 9, "sta": 1.5, "lta": 3.0, "attach": "none"}})
        out.append({"name": "stalta_n8_lta_full", "func": "run_stalta", "kwargs": {"comps": ["ns", "ew"], "nwin": 1, "n": 8, "sta": 1.0, "lta": 4.0, "attach": "none"}})
    return out


def mkrecs(ctx, nwin, n, tag="w", scale=None):
    Ld = L()
    TS = Ld["timeseries"].TimeSeries
    R3 = Ld["seismic_recording_3c"].SeismicRecording3C
    ss, recs = [], []
    for i in range(nwin):
        s = {c: symarray(f"{tag}{i}_{c}", (n,), ctx) for c in COMPS}
        ss.append(s)
        comps = s if scale is None else {c: np.array([v * scale for v in s[c]], dtype=object) for c in COMPS}
        recs.append(R3(*[TS(comps[c], DT) for c in COMPS]))
    return ss, recs


def attach_obj(kind, nwin):
    Ld = L()
    HT = Ld["hvsr_traditional"].HvsrTraditional
    HA = Ld["hvsr_azimuthal"].HvsrAzimuthal
    if kind == "none":
        return None, []

    def mkh():
        h = PP.shell_traditional(HT)
        h.valid_window_boolean_mask = np.zeros(nwin, dtype=bool)
        h.valid_peak_boolean_mask = np.zeros(nwin, dtype=bool)
        return h
    if kind == "traditional":
        h = mkh()
        return h, [h]
    a = PP.shell_azimuthal(HA, HT)
    a.hvsrs = [mkh(), mkh()]
    return a, a.hvsrs


def zabs(e):
    return z3.If(e >= 0, e, -e)


def sta_lta_ratios(x, npts_sta, npts_lta):
    """criterion terms for one component: ratios STA_i / LTA (numerators, denominator) as z3 terms."""
    n = len(x)
    nchunk = n // npts_sta
    short = [zabs(Sym.lift(v)) for v in x[:npts_sta * nchunk]]
    stas = [z3.Sum(short[i * npts_sta:(i + 1) * npts_sta]) / npts_sta for i in range(nchunk)]
    head = short[:npts_lta]
    lta = z3.Sum(head) / len(head)
    return stas, lta


def wit(ss, extra):
    def w(m):
        val = concretiser(m)
        d = {"windows": [{c: [val(v) for v in s[c]] for c in COMPS} for s in ss]}
        d.update({k: (val(v) if isinstance(v, Sym) else v) for k, v in extra.items()})
        return d
    return w


def check_decisions(rep, ctx, ss, recs, kept_list, comps, npts_sta, npts_lta, lo, hi, W, label=""):
    kept_ids = [id(r) for r in kept_list]
    decisions = [id(r) in kept_ids for r in recs]
    # same objects, original order
    rep.obligations += 1
    if [r for r in recs if id(r) in kept_ids] == list(kept_list) and all(any(k is r for r in recs) for k in kept_list):
        rep.discharged += 1
    else:
        rep.candidate(W(ctx.model()[1]), f"{label}returned list is not the kept windows as the same objects in original order", key="returned-list")
    for i, (s, kept) in enumerate(zip(ss, decisions)):
        outside, inside = [], []
        for c in comps:
            stas, lta = sta_lta_ratios(s[c], npts_sta, npts_lta)
            for st in stas:
                # lta > 0 on non-degenerate paths: compare st with limit*lta
                outside.append(z3.Or(st > hi.e * lta, st < lo.e * lta))
                inside.append(z3.And(st < hi.e * lta, st > lo.e * lta))
        pos = [sta_lta_ratios(s[c], npts_sta, npts_lta)[1] > 0 for c in comps]
        if kept:
            rep.prove(ctx, f"{label}window {i} kept => no examined STA/LTA ratio is strictly outside the limits", z3.And(z3.And(pos), z3.Or(outside)), witness=W, key="kept-but-outside")
        else:
            rep.prove(ctx, f"{label}window {i} rejected => not every examined ratio is strictly inside the limits", z3.And(z3.And(pos), z3.And(inside)), witness=W, key="rejected-but-inside")
    return decisions


def check_masks(rep, ctx, inner, decisions, W, label=""):
    for h in inner:
        rep.obligations += 1
        ok = (list(map(bool, h.valid_window_boolean_mask)) == decisions and list(map(bool, h.valid_peak_boolean_mask)) == decisions)
        if ok:
            rep.discharged += 1
        else:
            rep.candidate(W(ctx.model()[1]), f"{label}attached object's masks {list(h.valid_window_boolean_mask)} differ from the selection {decisions}", key="masks-differ-from-selection")


def run_stalta(rep, tier, comps, nwin, n, sta, lta, attach):
    WR = L()["window_rejection"]
    npts_sta, npts_lta = int(sta // DT), int(lta // DT)

    def run(ctx):
        ss, recs = mkrecs(ctx, nwin, n)
        lo, hi = Sym.var("lo", ctx, lo=0), Sym.var("hi", ctx)
        ctx.assume(hi.e > lo.e)
        top, inner = attach_obj(attach, nwin)
        kept = WR.sta_lta_window_rejection(recs, sta_seconds=sta, lta_seconds=lta, min_sta_lta_ratio=lo, max_sta_lta_ratio=hi, components=tuple(comps), hvsr=top)
        return ss, recs, kept, lo, hi, inner

    for ctx, (ss, recs, kept, lo, hi, inner) in rep.explore(run, max_paths=600 if tier == "quick" else 5000, timeout_ms=8000):
        W = wit(ss, {"kind": "stalta", "comps": comps, "sta": sta, "lta": lta, "lo": lo, "hi": hi, "attach": attach})
        dec = check_decisions(rep, ctx, ss, recs, kept, comps, npts_sta, npts_lta, lo, hi, W)
        check_masks(rep, ctx, inner, dec, W)
        rep.sample({"components": comps, "windows": nwin, "kept": dec})


def run_stalta_relation(rep, tier, rel):
    WR = L()["window_rejection"]
    n, sta, lta = 4, 1.0, 2.0

    def run(ctx):
        lo, hi = Sym.var("lo", ctx, lo=0), Sym.var("hi", ctx)
        ctx.assume(hi.e > lo.e)
        call = lambda recs, comps=("ns",), lo_=lo, hi_=hi: [id(r) for r in WR.sta_lta_window_rejection(recs, sta_seconds=sta, lta_seconds=lta, min_sta_lta_ratio=lo_,
                                                                                                 max_sta_lta_ratio=hi_, components=comps)]
        if rel == "locality":
            ss, recs = mkrecs(ctx, 2, n)
            both = call(recs)
            alone = call(recs[:1])
            return ss, lo, hi, (id(recs[0]) in both), (id(recs[0]) in alone)
        if rel == "locality_lengths":
            # windows of different durations (same time step) in one list: the decision for the second, longer one is its own
            sa, ra = mkrecs(ctx, 1, 4, tag="a")
            sb, rb = mkrecs(ctx, 1, 6, tag="b")
            recs = ra + rb
            def outcome(fn):
                try:
                    return id(rb[0]) in fn()
                except (ValueError, IndexError) as e:
                    return type(e).__name__
            return sa + sb, lo, hi, outcome(lambda: call(recs)), outcome(lambda: call(rb))
        if rel == "scale":
            c = Sym.var("c", ctx, pos=True)
            ss, recs = mkrecs(ctx, 1, n)
            _, recs2 = mkrecs(ctx, 1, n, scale=c)
            return ss, lo, hi, bool(call(recs)), bool(call(recs2))
        if rel == "widen":
            lo2, hi2 = Sym.var("lo2", ctx, lo=0), Sym.var("hi2", ctx)
            ctx.assume(z3.And(lo2.e <= lo.e, hi2.e >= hi.e))
            ss, recs = mkrecs(ctx, 1, n)
            a = bool(call(recs))
            b = bool(call(recs, lo_=lo2, hi_=hi2))
            return ss, lo, hi, (not a) or b, True          # kept under the narrow limits => kept under the wide ones
        ss, recs = mkrecs(ctx, 1, n)
        both = bool(call(recs, comps=("ns", "ew")))
        return ss, lo, hi, both, bool(call(recs, comps=("ns",))) and bool(call(recs, comps=("ew",)))

    for ctx, (ss, lo, hi, a, b) in rep.explore(run, max_paths=800 if tier == "quick" else 5000, timeout_ms=8000):
        rep.obligations += 1
        if a == b:
            rep.discharged += 1
        else:
            r, m = ctx.model()
            if r == z3.sat:
                rep.candidate(wit(ss, {"kind": "stalta_rel", "rel": rel, "lo": lo, "hi": hi})(m), f"STA/LTA decision violates {rel}: {a} vs {b}", key=f"stalta-{rel}")
        rep.sample({"relation": rel, "holds": a == b})


def run_maxval(rep, tier, comps, nwin, n, normalized, attach):
    WR = L()["window_rejection"]

    def run(ctx):
        ss, recs = mkrecs(ctx, nwin, n)
        thr = Sym.var("thr", ctx, pos=True)
        top, inner = attach_obj(attach, nwin)
        kept = WR.maximum_value_window_rejection(recs, maximum_value_threshold=thr, normalized=normalized, components=tuple(comps), hvsr=top)
        return ss, recs, kept, thr, inner

    for ctx, (ss, recs, kept, thr, inner) in rep.explore(run, max_paths=1500 if tier == "quick" else 10000, timeout_ms=8000):
        W = wit(ss, {"kind": "maxval", "comps": comps, "normalized": normalized, "thr": thr, "attach": attach})
        kept_ids = [id(r) for r in kept]
        dec = [id(r) in kept_ids for r in recs]
        rep.obligations += 1
        if [r for r in recs if id(r) in kept_ids] == list(kept):
            rep.discharged += 1
        else:
            rep.candidate(W(ctx.model()[1]), "returned list is not the kept windows in original order", key="returned-list")

        def mx(s):
            t = z3.RealVal(0)
            for c in comps:
                for v in s[c]:
                    t = z3.If(zabs(Sym.lift(v)) > t, zabs(Sym.lift(v)), t)
            return t
        peaks = [mx(s) for s in ss]
        allmax = peaks[0]
        for p in peaks[1:]:
            allmax = z3.If(p > allmax, p, allmax)
        for i, (p, k) in enumerate(zip(peaks, dec)):
            crit = (p < thr.e * allmax) if normalized else (p < thr.e)
            rep.prove(ctx, f"window {i} kept iff its largest |sample| is below the threshold" + (" x overall largest" if normalized else ""),
                      z3.And(allmax > 0, z3.Not(crit) if k else crit), witness=W, key="maxval-criterion")
        check_masks(rep, ctx, inner, dec, W)
        rep.sample({"components": comps, "normalized": normalized, "kept": dec})


# ----------------------------------------------------------------------------- concrete side
def _recs(hvsrpy, spec, scale=1.0):
    return [hvsrpy.SeismicRecording3C(*[hvsrpy.TimeSeries(np.array(w[c], dtype=float) * scale, DT) for c in COMPS]) for w in spec["windows"]]


def _crit_stalta(w, comps, sta, lta, lo, hi):
    """returns (any strictly outside, all strictly inside)"""
    ns, nl = int(sta // DT), int(lta // DT)
    out, ins = False, True
    for c in comps:
        x = np.abs(np.array(w[c], dtype=float))
        k = len(x) // ns
        st = x[:ns * k].reshape(k, ns).mean(axis=1)
        l = x[:ns * k][:nl].mean()
        r = st / l
        out |= bool((r > hi).any() or (r < lo).any())
        ins &= bool((r < hi).all() and (r > lo).all())
    return out, ins


def replay(spec):
    import hvsrpy
    from hvsrpy import window_rejection as WR
    k = spec["kind"]
    if k == "stalta":
        recs = _recs(hvsrpy, spec)
        hv = None
        if spec.get("attach") == "traditional":
            hv = hvsrpy.HvsrTraditional([1, 2, 3], np.ones((len(recs), 3)))
        elif spec.get("attach") == "azimuthal":
            hv = hvsrpy.HvsrAzimuthal([hvsrpy.HvsrTraditional([1, 2, 3], np.ones((len(recs), 3))) for _ in range(2)], [0, 90])
        kept = WR.sta_lta_window_rejection(recs, sta_seconds=spec["sta"], lta_seconds=spec["lta"], min_sta_lta_ratio=spec["lo"], max_sta_lta_ratio=spec["hi"],
                                           components=tuple(spec["comps"]), hvsr=hv)
        dec = [any(r is q for q in kept) for r in recs]
        if [r for r, d in zip(recs, dec) if d] != list(kept):
            return {"reproduced": True, "key": "returned-list", "detail": "returned list is not the kept windows in order"}
        for i, (w, d) in enumerate(zip(spec["windows"], dec)):
            out, ins = _crit_stalta(w, spec["comps"], spec["sta"], spec["lta"], spec["lo"], spec["hi"])
            if d and out:
                return {"reproduced": True, "key": "kept-but-outside", "detail": f"window {i} kept although a ratio is strictly outside [{spec['lo']}, {spec['hi']}]: {w}"[:300]}
            if (not d) and ins:
                return {"reproduced": True, "key": "rejected-but-inside", "detail": f"window {i} rejected although all ratios are strictly inside ({spec['lo']}, {spec['hi']}): {w}"[:300]}
        if hv is not None:
            for h in (hv.hvsrs if hasattr(hv, "hvsrs") else [hv]):
                if list(map(bool, h.valid_window_boolean_mask)) != dec or list(map(bool, h.valid_peak_boolean_mask)) != dec:
                    return {"reproduced": True, "key": "masks-differ-from-selection", "detail": f"masks {h.valid_window_boolean_mask.tolist()} vs selection {dec}"}
        return {"reproduced": False, "detail": f"decisions {dec} consistent with the criterion"}
    if k == "stalta_rel":
        call = lambda recs, comps=("ns",), lo=spec["lo"], hi=spec["hi"]: WR.sta_lta_window_rejection(recs, sta_seconds=1.0, lta_seconds=2.0, min_sta_lta_ratio=lo, max_sta_lta_ratio=hi, components=comps)
        rel = spec["rel"]
        recs = _recs(hvsrpy, spec)
        if rel == "locality":
            a, b = any(r is recs[0] for r in call(recs)), bool(call(recs[:1]))
        elif rel == "locality_lengths":
            def out(fn):
                try:
                    return fn()
                except Exception as e:   # noqa
                    return type(e).__name__
            a, b = out(lambda: any(r is recs[1] for r in call(recs))), out(lambda: bool(call(recs[1:])))
        elif rel == "scale":
            a, b = bool(call(recs)), bool(call(_recs(hvsrpy, spec, scale=spec.get("c", 3.0))))
        elif rel == "widen":
            a = (not bool(call(recs))) or bool(call(recs, lo=spec.get("lo2", 0.0), hi=spec.get("hi2", spec["hi"] * 2)))
            b = True
        else:
            a, b = bool(call(recs, comps=("ns", "ew"))), bool(call(recs, comps=("ns",))) and bool(call(recs, comps=("ew",)))
        return {"reproduced": a != b, "key": f"stalta-{rel}", "detail": f"{rel}: {a} vs {b}"}
    if k == "maxval":
        recs = _recs(hvsrpy, spec)
        hv = None
        if spec.get("attach") == "traditional":
            hv = hvsrpy.HvsrTraditional([1, 2, 3], np.ones((len(recs), 3)))
        elif spec.get("attach") == "azimuthal":
            hv = hvsrpy.HvsrAzimuthal([hvsrpy.HvsrTraditional([1, 2, 3], np.ones((len(recs), 3))) for _ in range(2)], [0, 90])
        kept = WR.maximum_value_window_rejection(recs, maximum_value_threshold=spec["thr"], normalized=spec["normalized"], components=tuple(spec["comps"]), hvsr=hv)
        dec = [any(r is q for q in kept) for r in recs]
        pk = [max(np.max(np.abs(np.array(w[c], dtype=float))) for c in spec["comps"]) for w in spec["windows"]]
        ref = [p < spec["thr"] * (max(pk) if spec["normalized"] else 1.0) for p in pk]
        if dec != ref:
            return {"reproduced": True, "key": "maxval-criterion", "detail": f"kept {dec} vs criterion {ref}: peaks {pk}, threshold {spec['thr']}, normalized={spec['normalized']}"}
        if hv is not None:
            for h in (hv.hvsrs if hasattr(hv, "hvsrs") else [hv]):
                if list(map(bool, h.valid_window_boolean_mask)) != dec or list(map(bool, h.valid_peak_boolean_mask)) != dec:
                    return {"reproduced": True, "key": "masks-differ-from-selection", "detail": f"masks {h.valid_window_boolean_mask.tolist()} vs selection {dec}"}
        return {"reproduced": False, "detail": "criterion satisfied"}
    return {"reproduced": False, "detail": "unknown kind"}


def validate(spec):
    return {"ok": True, "skipped": True}
