"""Bit-precise encoding (QF_BVFP, binary64) of the seconds -> sample-count conversion of TimeSeries.split.

The expression is located in the AST of /repo/hvsrpy/timeseries.py at every run and translated to z3 floating
point terms: `/` = fp.div RNE, `+ - *` RNE, float literals exact, int(x) = fp.to_sbv RTZ, names bound by the caller.
Inputs are bit-vectors (no Int sort: the mixed Int/FP encoding is 'unknown'), solved by z3 and by the cvc5 binary;
verdicts must agree; any `(error` in solver output is inconclusive.
"""
import ast
import os
import subprocess
import tempfile
import time

import z3

REPO = os.environ.get("HVSRPY_REPO", "/repo")
F64 = z3.Float64()
RNE = z3.RNE()


class Untranslatable(Exception):
    pass


def find_assignment(func_src_tree, func, target):
    for n in ast.walk(func_src_tree):
        if isinstance(n, ast.FunctionDef) and n.name == func:
            for a in ast.walk(n):
                if isinstance(a, ast.Assign) and len(a.targets) == 1 and isinstance(a.targets[0], ast.Name) and a.targets[0].id == target:
                    return a.value
    raise Untranslatable(f"no assignment to {target} in {func}")


def to_fp(node, env, width=32):
    """AST expression -> ('fp', term) | ('bv', term).  env: name/attribute-string -> ('fp'|'bv', term)."""
    if isinstance(node, ast.Constant) and isinstance(node.value, (int, float)) and not isinstance(node.value, bool):
        if isinstance(node.value, int):
            return ("bv", z3.BitVecVal(node.value, width))
        return ("fp", z3.FPVal(node.value, F64))
    if isinstance(node, (ast.Name, ast.Attribute)):
        key = ast.unparse(node)
        if key in env:
            return env[key]
        raise Untranslatable(f"unbound name {key}")
    if isinstance(node, ast.BinOp):
        l, r = to_fp(node.left, env, width), to_fp(node.right, env, width)
        if isinstance(node.op, ast.Div):
            return ("fp", z3.fpDiv(RNE, as_fp(l), as_fp(r)))
        if l[0] == "bv" and r[0] == "bv":
            op = {ast.Add: lambda a, b: a + b, ast.Sub: lambda a, b: a - b, ast.Mult: lambda a, b: a * b}.get(type(node.op))
            if op is None:
                raise Untranslatable(ast.dump(node.op))
            return ("bv", op(l[1], r[1]))
        op = {ast.Add: z3.fpAdd, ast.Sub: z3.fpSub, ast.Mult: z3.fpMul}.get(type(node.op))
        if op is None:
            raise Untranslatable(ast.dump(node.op))
        return ("fp", op(RNE, as_fp(l), as_fp(r)))
    if isinstance(node, ast.Call) and isinstance(node.func, ast.Name) and node.func.id == "int" and len(node.args) == 1:
        v = to_fp(node.args[0], env, width)
        if v[0] == "bv":
            return v
        return ("bv", z3.fpToSBV(z3.RTZ(), v[1], z3.BitVecSort(width)))
    if isinstance(node, ast.Call) and isinstance(node.func, ast.Name) and node.func.id == "round" and len(node.args) == 1:
        v = to_fp(node.args[0], env, width)
        return ("bv", z3.fpToSBV(z3.RNE(), as_fp(v), z3.BitVecSort(width)))      # python round(): ties to even
    if isinstance(node, ast.Call) and isinstance(node.func, ast.Name) and node.func.id == "float" and len(node.args) == 1:
        return ("fp", as_fp(to_fp(node.args[0], env, width)))
    if isinstance(node, ast.Call) and ast.unparse(node.func) in ("np.floor", "math.floor") and len(node.args) == 1:
        return ("fp", z3.fpRoundToIntegral(z3.RTN(), as_fp(to_fp(node.args[0], env, width))))
    if isinstance(node, ast.Call) and ast.unparse(node.func) in ("np.round", "np.rint") and len(node.args) == 1:
        return ("fp", z3.fpRoundToIntegral(z3.RNE(), as_fp(to_fp(node.args[0], env, width))))
    if isinstance(node, ast.Call) and ast.unparse(node.func) in ("abs", "np.abs", "np.absolute", "math.fabs") and len(node.args) == 1:
        return ("fp", z3.fpAbs(as_fp(to_fp(node.args[0], env, width))))
    if isinstance(node, ast.IfExp):
        return ite(cond_to_bool(node.test, env, width), to_fp(node.body, env, width), to_fp(node.orelse, env, width))
    if isinstance(node, ast.UnaryOp) and isinstance(node.op, ast.USub):
        v = to_fp(node.operand, env, width)
        return ("bv", -v[1]) if v[0] == "bv" else ("fp", z3.fpNeg(v[1]))
    raise Untranslatable(ast.unparse(node))


def as_fp(v):
    if v[0] == "fp":
        return v[1]
    return z3.fpSignedToFP(RNE, v[1], F64)


def cond_to_bool(node, env, width):
    """AST condition -> z3 Bool (comparisons, and/or/not, np.isclose)."""
    if isinstance(node, ast.BoolOp):
        parts = [cond_to_bool(v, env, width) for v in node.values]
        return z3.And(*parts) if isinstance(node.op, ast.And) else z3.Or(*parts)
    if isinstance(node, ast.UnaryOp) and isinstance(node.op, ast.Not):
        return z3.Not(cond_to_bool(node.operand, env, width))
    if isinstance(node, ast.Compare) and len(node.ops) == 1:
        l, r = to_fp(node.left, env, width), to_fp(node.comparators[0], env, width)
        if l[0] == "bv" and r[0] == "bv":
            a, b = l[1], r[1]
            return {ast.Lt: a < b, ast.LtE: a <= b, ast.Gt: a > b, ast.GtE: a >= b, ast.Eq: a == b, ast.NotEq: a != b}[type(node.ops[0])]
        a, b = as_fp(l), as_fp(r)
        return {ast.Lt: z3.fpLT(a, b), ast.LtE: z3.fpLEQ(a, b), ast.Gt: z3.fpGT(a, b), ast.GtE: z3.fpGEQ(a, b), ast.Eq: z3.fpEQ(a, b), ast.NotEq: z3.Not(z3.fpEQ(a, b))}[type(node.ops[0])]
    if isinstance(node, ast.Call) and ast.unparse(node.func) in ("np.isclose", "math.isclose"):
        a, b = as_fp(to_fp(node.args[0], env, width)), as_fp(to_fp(node.args[1], env, width))
        kw = {k.arg: k.value.value for k in node.keywords if isinstance(k.value, ast.Constant)}
        if ast.unparse(node.func) == "np.isclose":
            rtol, atol = kw.get("rtol", 1e-05), kw.get("atol", 1e-08)
            bound = z3.fpAdd(RNE, z3.FPVal(atol, F64), z3.fpMul(RNE, z3.FPVal(rtol, F64), z3.fpAbs(b)))
        else:
            rel, ab = kw.get("rel_tol", 1e-09), kw.get("abs_tol", 0.0)
            m = z3.If(z3.fpGT(z3.fpAbs(a), z3.fpAbs(b)), z3.fpAbs(a), z3.fpAbs(b))
            bound = z3.If(z3.fpGT(z3.fpMul(RNE, z3.FPVal(rel, F64), m), z3.FPVal(ab, F64)), z3.fpMul(RNE, z3.FPVal(rel, F64), m), z3.FPVal(ab, F64))
        return z3.fpLEQ(z3.fpAbs(z3.fpSub(RNE, a, b)), bound)
    raise Untranslatable(ast.unparse(node))


def ite(c, a, b):
    if a[0] == "bv" and b[0] == "bv":
        return ("bv", z3.If(c, a[1], b[1]))
    return ("fp", z3.If(c, as_fp(a), as_fp(b)))


def run_block(stmts, env, width, until):
    """Symbolically execute straight-line statements with if/else (assignments to names only) until `until` is assigned."""
    for st in stmts:
        if isinstance(st, ast.Expr) and isinstance(st.value, ast.Constant):
            continue                       # docstring
        if isinstance(st, ast.Assign) and len(st.targets) == 1 and isinstance(st.targets[0], ast.Name):
            env[st.targets[0].id] = to_fp(st.value, env, width)
            if st.targets[0].id == until:
                return True
        elif isinstance(st, ast.AugAssign) and isinstance(st.target, ast.Name):
            env[st.target.id] = to_fp(ast.BinOp(left=ast.Name(id=st.target.id, ctx=ast.Load()), op=st.op, right=st.value), env, width)
            if st.target.id == until:
                return True
        elif isinstance(st, ast.If):
            c = cond_to_bool(st.test, env, width)
            e1, e2 = dict(env), dict(env)
            d1 = run_block(st.body, e1, width, until)
            d2 = run_block(st.orelse, e2, width, until)
            for k in set(e1) | set(e2):
                if k in e1 and k in e2:
                    env[k] = e1[k] if e1[k] is e2[k] else ite(c, e1[k], e2[k])
            if d1 and d2:
                return True
            if d1 or d2:
                raise Untranslatable(f"{until} assigned on one branch only")
        else:
            raise Untranslatable(ast.unparse(st)[:80])
    return False


def split_samples_per_window(env, width=32):
    """samples_per_window as computed by the current source of TimeSeries.split (statements up to its assignment)."""
    src = open(os.path.join(REPO, "hvsrpy", "timeseries.py")).read()
    tree = ast.parse(src)
    for n in ast.walk(tree):
        if isinstance(n, ast.FunctionDef) and n.name == "split":
            if not run_block(n.body, env, width, "samples_per_window"):
                raise Untranslatable("samples_per_window is never assigned at the top level of split()")
            lines = []
            for st in n.body:
                if isinstance(st, ast.Expr) and isinstance(st.value, ast.Constant):
                    continue
                lines.append(ast.unparse(st))
                if isinstance(st, ast.Assign) and ast.unparse(st.targets[0]) == "samples_per_window":
                    break
            return env["samples_per_window"], " ; ".join(lines)
    raise Untranslatable("TimeSeries.split not found")


def _k_term(fs_bits, m_bits):
    fs = z3.BitVec("fs", fs_bits)
    m = z3.BitVec("m", m_bits)
    W = 32
    fsf = z3.fpUnsignedToFP(RNE, fs, F64)
    mf = z3.fpUnsignedToFP(RNE, m, F64)
    dt = z3.fpDiv(RNE, z3.FPVal(1.0, F64), fsf)
    w = z3.FP("w", F64)
    env = {"window_length_in_seconds": ("fp", w), "self.dt_in_seconds": ("fp", dt)}
    spw, src = split_samples_per_window(env, W)
    if spw[0] != "bv":
        spw = ("bv", z3.fpToSBV(z3.RTZ(), spw[1], z3.BitVecSort(W)))
    k = spw[1] - z3.BitVecVal(1, W)
    return fs, m, w, fsf, mf, k, src, W


def split_count_query(fs_bits, m_bits, goal="exact"):
    """Constraints whose satisfiability is a violation:  fs (integer sampling rate, dt = 1/fs as the readers compute it),
    w = requested window length (any double with w*fs == m exactly), k = samples_per_window - 1 as the code computes it."""
    fs, m, w, fsf, mf, k, src, W = _k_term(fs_bits, m_bits)
    cs = [z3.UGE(fs, 1), z3.UGE(m, 1),
          z3.fpMul(z3.RTP(), w, fsf) == mf, z3.fpMul(z3.RTN(), w, fsf) == mf,     # w * fs == m exactly
          k != z3.ZeroExt(W - m_bits, m)]
    return cs, {"fs": fs, "m": m, "w": w, "k": k}, src


def split_floor_query(fs_bits, m_bits):
    """Non-multiples: a window length with  m <= w*fs <= m + 1 - 2**-16  (clearly below the next whole interval) holds
    exactly m whole sample intervals.  (Nothing is demanded within 2**-16 of a sample below an integer.)"""
    fs, m, w, fsf, mf, k, src, W = _k_term(fs_bits, m_bits)
    hi = z3.fpAdd(RNE, mf, z3.FPVal(1.0 - 2.0 ** -16, F64))          # exact: m < 2**m_bits
    cs = [z3.UGE(fs, 1), z3.UGE(m, 1),
          z3.fpGEQ(z3.fpMul(z3.RTN(), w, fsf), mf), z3.fpLEQ(z3.fpMul(z3.RTP(), w, fsf), hi),
          k != z3.ZeroExt(W - m_bits, m)]
    return cs, {"fs": fs, "m": m, "w": w, "k": k}, src


def window_count_query(n_bits, k_bits):
    """n_windows = int(n_samples / (samples_per_window - 1)) must be floor(N / k) for integers N, k."""
    src = open(os.path.join(REPO, "hvsrpy", "timeseries.py")).read()
    expr = find_assignment(ast.parse(src), "split", "n_windows")
    W = 32
    N = z3.BitVec("N", n_bits)
    k = z3.BitVec("k", k_bits)
    env = {"self.n_samples": ("bv", z3.ZeroExt(W - n_bits, N)), "samples_per_window": ("bv", z3.ZeroExt(W - k_bits, k) + 1)}
    nw = to_fp(expr, env, W)
    if nw[0] != "bv":
        nw = ("bv", z3.fpToSBV(z3.RTZ(), nw[1], z3.BitVecSort(W)))
    cs = [z3.UGE(k, 1), nw[1] != z3.UDiv(z3.ZeroExt(W - n_bits, N), z3.ZeroExt(W - k_bits, k))]
    return cs, {"N": N, "k": k, "n_windows": nw[1]}, ast.unparse(expr)


def _parse_cli_model(txt):
    """constants of a z3 / cvc5 (get-model) answer: bit-vectors as ints, binary64 literals as floats."""
    import re
    import struct
    out = {}
    for name, val in re.findall(r"\(define-fun (\w+) \(\) \(_ BitVec \d+\)\s+(#[xb][0-9a-fA-F]+)\)", txt):
        out[name] = int(val[2:], 16 if val[1] == "x" else 2)
    for name, sg, ex, mant in re.findall(r"\(define-fun (\w+) \(\) \(_ FloatingPoint 11 53\)\s+\(fp (#b[01]) (#b[01]{11}) (#x[0-9a-fA-F]{13})\)\)", txt):
        bits = (int(sg[2:], 2) << 63) | (int(ex[2:], 2) << 52) | int(mant[2:], 16)
        out[name] = struct.unpack(">d", struct.pack(">Q", bits))[0]
    return out


def solve_both(cs, timeout_s=120, want_model=None, grace_s=15):
    """The z3 command line solver (5.1.0 wheel CLI `z3-new`, else /usr/bin/z3) and the cvc5 binary run side by side on the same
    SMT-LIB2 file; when one decides, the other gets `grace_s` more seconds, then it is stopped.  A verdict counts only if it is
    the first output line and no `(error` line accompanies it; two verdicts must agree.
    -> dict(z3=..., cvc5=..., verdict=sat|unsat|unknown|disagree, model=...)"""
    import shutil
    s = z3.Solver()
    s.add(*cs)
    body = "(set-logic QF_BVFP)\n" + s.to_smt2().replace("(set-info :status unknown)\n", "")
    f = tempfile.NamedTemporaryFile("w", suffix=".smt2", delete=False)
    f.write(body.replace("(check-sat)", "(check-sat)\n(get-model)") if want_model else body)
    f.close()
    f2 = tempfile.NamedTemporaryFile("w", suffix=".smt2", delete=False)
    f2.write(body)
    f2.close()
    zbin = shutil.which("z3-new") or shutil.which("z3")
    procs = {}
    t0 = time.time()
    if zbin:
        procs["z3"] = subprocess.Popen([zbin, f"-T:{int(timeout_s)}", f.name], stdout=subprocess.PIPE, stderr=subprocess.STDOUT, text=True)
    if shutil.which("cvc5"):
        procs["cvc5"] = subprocess.Popen(["cvc5", f"--tlimit={int(timeout_s * 1000)}", f2.name], stdout=subprocess.PIPE, stderr=subprocess.STDOUT, text=True)
    res, txts, first_done = {}, {}, None
    while len(res) < len(procs):
        for name, p in procs.items():
            if name in res or p.poll() is None:
                continue
            txt = p.stdout.read()
            txts[name] = txt
            head = txt.strip().splitlines()[0].strip() if txt.strip() else "unknown"
            errs = [l for l in txt.splitlines() if "(error" in l and "model is not available" not in l]
            res[name] = (head if head in ("sat", "unsat") and not errs else "unknown", round(time.time() - t0, 1))
            if res[name][0] in ("sat", "unsat") and first_done is None:
                first_done = time.time()
        if len(res) == len(procs):
            break
        if (first_done is not None and time.time() - first_done > grace_s) or time.time() - t0 > timeout_s + 10:
            for name, p in procs.items():
                if name not in res:
                    p.kill()
                    res[name] = ("unknown", round(time.time() - t0, 1))
            break
        time.sleep(0.2)
    for path in (f.name, f2.name):
        try:
            os.unlink(path)
        except OSError:
            pass
    out = {"z3": res.get("z3", ("unavailable", 0))[0], "z3_s": res.get("z3", ("", 0))[1],
           "cvc5": res.get("cvc5", ("unavailable", 0))[0], "cvc5_s": res.get("cvc5", ("", 0))[1]}
    decided = [v for v in (out["z3"], out["cvc5"]) if v in ("sat", "unsat")]
    out["verdict"] = "disagree" if len(set(decided)) > 1 else (decided[0] if decided else "unknown")
    model = None
    if out["verdict"] == "sat" and want_model:
        if out["z3"] == "sat":
            model = _parse_cli_model(txts.get("z3", ""))
        if not model:
            # cvc5 decided first: ask z3 in-process for a model within a short budget
            s.set("timeout", 60000)
            if s.check() == z3.sat:
                md = s.model()
                model = {}
                for name, term in want_model.items():
                    v = md.eval(term, model_completion=True)
                    if z3.is_fp(v):
                        rv = z3.simplify(z3.fpToReal(v))
                        model[name] = float(rv.as_fraction()) if hasattr(rv, "as_fraction") else str(v)
                    elif z3.is_bv_value(v):
                        model[name] = v.as_long()
        if model is not None:
            for k_ in ("k", "n_windows"):
                model.setdefault(k_, None)
    out["model"] = model
    return out
