"""Bit-precise encoding (QF_BVFP, binary64) of the seconds -> sample-count conversion of TimeSeries.split.

The expression is located in the AST of /repo/hvsrpy/timeseries.py at every run and translated to z3 floating
point terms: `/` = fp.div RNE, `+ - *` RNE, float literals exact, int(x) = fp.to_sbv RTZ, names bound by the caller.
Inputs are bit-vectors (no Int sort: the mixed Int/FP encoding is 'unknown'), solved by z3 and by the cvc5 binary;
verdicts must agree; any `(error` in solver output is inconclusive.
"""
import ast
import os
import subprocess
import tempfile
import time

import z3

REPO = os.environ.get("HVSRPY_REPO", "/repo")
F64 = z3.Float64()
RNE = z3.RNE()


class Untranslatable(Exception):
    pass


def find_assignment(func_src_tree, func, target):
    for n in ast.walk(func_src_tree):
        if isinstance(n, ast.FunctionDef) and n.name == func:
            for a in ast.walk(n):
                if isinstance(a, ast.Assign) and len(a.targets) == 1 and isinstance(a.targets[0], ast.Name) and a.targets[0].id == target:
                    return a.value
    raise Untranslatable(f"no assignment to {target} in {func}")


def to_fp(node, env, width=32):
    """AST expression -> ('fp', term) | ('bv', term).  env: name/attribute-string -> ('fp'|'bv', term)."""
    if isinstance(node, ast.Constant) and isinstance(node.value, (int, float)) and not isinstance(node.value, bool):
        if isinstance(node.value, int):
            return ("bv", z3.BitVecVal(node.value, width))
        return ("fp", z3.FPVal(node.value, F64))
    if isinstance(node, (ast.Name, ast.Attribute)):
        key = ast.unparse(node)
        if key in env:
            return env[key]
        raise Untranslatable(f"unbound name {key}")
    if isinstance(node, ast.BinOp):
        l, r = to_fp(node.left, env, width), to_fp(node.right, env, width)
        if isinstance(node.op, ast.Div):
            return ("fp", z3.fpDiv(RNE, as_fp(l), as_fp(r)))
        if l[0] == "bv" and r[0] == "bv":
            op = {ast.Add: lambda a, b: a + b, ast.Sub: lambda a, b: a - b, ast.Mult: lambda a, b: a * b}.get(type(node.op))
            if op is None:
                raise Untranslatable(ast.dump(node.op))
            return ("bv", op(l[1], r[1]))
        op = {ast.Add: z3.fpAdd, ast.Sub: z3.fpSub, ast.Mult: z3.fpMul}.get(type(node.op))
        if op is None:
            raise Untranslatable(ast.dump(node.op))
        return ("fp", op(RNE, as_fp(l), as_fp(r)))
    if isinstance(node, ast.Call) and isinstance(node.func, ast.Name) and node.func.id == "int" and len(node.args) == 1:
        v = to_fp(node.args[0], env, width)
        if v[0] == "bv":
            return v
        return ("bv", z3.fpToSBV(z3.RTZ(), v[1], z3.BitVecSort(width)))
    if isinstance(node, ast.Call) and isinstance(node.func, ast.Name) and node.func.id == "round" and len(node.args) == 1:
        v = to_fp(node.args[0], env, width)
        return ("bv", z3.fpToSBV(z3.RNE(), as_fp(v), z3.BitVecSort(width)))      # python round(): ties to even
    if isinstance(node, ast.Call) and isinstance(node.func, ast.Name) and node.func.id == "float" and len(node.args) == 1:
        return ("fp", as_fp(to_fp(node.args[0], env, width)))
    if isinstance(node, ast.Call) and ast.unparse(node.func) in ("np.floor", "math.floor") and len(node.args) == 1:
        return ("fp", z3.fpRoundToIntegral(z3.RTN(), as_fp(to_fp(node.args[0], env, width))))
    if isinstance(node, ast.Call) and ast.unparse(node.func) in ("np.round", "np.rint") and len(node.args) == 1:
        return ("fp", z3.fpRoundToIntegral(z3.RNE(), as_fp(to_fp(node.args[0], env, width))))
    raise Untranslatable(ast.unparse(node))


def as_fp(v):
    if v[0] == "fp":
        return v[1]
    return z3.fpSignedToFP(RNE, v[1], F64)


def split_count_query(fs_bits, m_bits, goal="exact"):
    """Constraints whose satisfiability is a violation:  fs (integer sampling rate, dt = 1/fs as the readers compute it),
    w = requested window length (any double with w*fs == m exactly), k = samples_per_window - 1 as the code computes it."""
    src = open(os.path.join(REPO, "hvsrpy", "timeseries.py")).read()
    tree = ast.parse(src)
    expr = find_assignment(tree, "split", "samples_per_window")
    fs = z3.BitVec("fs", fs_bits)
    m = z3.BitVec("m", m_bits)
    W = 32
    fsf = z3.fpUnsignedToFP(RNE, fs, F64)
    mf = z3.fpUnsignedToFP(RNE, m, F64)
    dt = z3.fpDiv(RNE, z3.FPVal(1.0, F64), fsf)
    w = z3.FP("w", F64)
    env = {"window_length_in_seconds": ("fp", w), "self.dt_in_seconds": ("fp", dt)}
    spw = to_fp(expr, env, W)
    if spw[0] != "bv":
        spw = ("bv", z3.fpToSBV(z3.RTZ(), spw[1], z3.BitVecSort(W)))
    k = spw[1] - z3.BitVecVal(1, W)
    cs = [z3.UGE(fs, 1), z3.UGE(m, 1),
          z3.fpMul(z3.RTP(), w, fsf) == mf, z3.fpMul(z3.RTN(), w, fsf) == mf,     # w * fs == m exactly
          k != z3.ZeroExt(W - m_bits, m)]
    return cs, {"fs": fs, "m": m, "w": w, "k": k}, ast.unparse(expr)


def window_count_query(n_bits, k_bits):
    """n_windows = int(n_samples / (samples_per_window - 1)) must be floor(N / k) for integers N, k."""
    src = open(os.path.join(REPO, "hvsrpy", "timeseries.py")).read()
    expr = find_assignment(ast.parse(src), "split", "n_windows")
    W = 32
    N = z3.BitVec("N", n_bits)
    k = z3.BitVec("k", k_bits)
    env = {"self.n_samples": ("bv", z3.ZeroExt(W - n_bits, N)), "samples_per_window": ("bv", z3.ZeroExt(W - k_bits, k) + 1)}
    nw = to_fp(expr, env, W)
    if nw[0] != "bv":
        nw = ("bv", z3.fpToSBV(z3.RTZ(), nw[1], z3.BitVecSort(W)))
    cs = [z3.UGE(k, 1), nw[1] != z3.UDiv(z3.ZeroExt(W - n_bits, N), z3.ZeroExt(W - k_bits, k))]
    return cs, {"N": N, "k": k, "n_windows": nw[1]}, ast.unparse(expr)


def solve_both(cs, timeout_s=120, want_model=None):
    """-> dict(z3=..., cvc5=..., verdict=sat|unsat|unknown|disagree, model=...)"""
    out = {}
    s = z3.Solver()
    s.set("timeout", int(timeout_s * 1000))
    s.add(*cs)
    smt2 = "(set-logic QF_BVFP)\n" + s.to_smt2().replace("(set-info :status unknown)\n", "")
    # cvc5 binary in the background (needs a file)
    f = tempfile.NamedTemporaryFile("w", suffix=".smt2", delete=False)
    f.write(smt2)
    f.close()
    t0 = time.time()
    try:
        proc = subprocess.Popen(["cvc5", "--produce-models", f"--tlimit={int(timeout_s * 1000)}", f.name], stdout=subprocess.PIPE, stderr=subprocess.STDOUT, text=True)
    except FileNotFoundError:
        proc = None
    t1 = time.time()
    r = s.check()
    out["z3"] = str(r)
    out["z3_s"] = round(time.time() - t1, 1)
    model = None
    if r == z3.sat and want_model:
        md = s.model()
        model = {}
        for name, term in want_model.items():
            v = md.eval(term, model_completion=True)
            if z3.is_fp(v):
                model[name] = float(eval(str(z3.simplify(z3.fpToReal(v)).as_fraction()))) if hasattr(z3.simplify(z3.fpToReal(v)), "as_fraction") else str(v)
            else:
                model[name] = v.as_signed_long() if name in ("k", "n_windows") else v.as_long()
    if proc is not None:
        try:
            txt, _ = proc.communicate(timeout=max(1, timeout_s + 5 - (time.time() - t0)))
        except subprocess.TimeoutExpired:
            proc.kill()
            txt = "timeout"
        first = txt.strip().splitlines()[0] if txt.strip() else "unknown"
        out["cvc5"] = "unknown" if ("(error" in txt or first not in ("sat", "unsat")) else first
        out["cvc5_s"] = round(time.time() - t0, 1)
    else:
        out["cvc5"] = "unavailable"
    os.unlink(f.name)
    zs, cv = out["z3"], out["cvc5"]
    decided = [v for v in (zs, cv) if v in ("sat", "unsat")]
    if len(set(decided)) > 1:
        out["verdict"] = "disagree"
    elif decided:
        out["verdict"] = decided[0]
    else:
        out["verdict"] = "unknown"
    out["model"] = model
    return out
