"""Python `re` patterns -> z3 regular expressions (parsed with re._parser at every run, so the encoding follows
the patterns actually present in /repo/hvsrpy/regex.py).  Supports literals, classes, \\d \\s, repeats, groups,
alternation; anchors are dropped (the obligations state the match position explicitly)."""
import importlib.util
import os
import re._constants as sc
import re._parser as sp

import z3

REPO = os.environ.get("HVSRPY_REPO", "/repo")
SPACE = " \t\n\r\f\v"


def load_patterns():
    spec = importlib.util.spec_from_file_location("hv_regex_src", os.path.join(REPO, "hvsrpy", "regex.py"))
    m = importlib.util.module_from_spec(spec)
    spec.loader.exec_module(m)
    return m


def _cls(items):
    rs = []
    neg = False
    for op, av in items:
        if op == sc.NEGATE:
            neg = True
        elif op == sc.LITERAL:
            rs.append(z3.Re(chr(av)))
        elif op == sc.RANGE:
            rs.append(z3.Range(chr(av[0]), chr(av[1])))
        elif op == sc.CATEGORY:
            if av == sc.CATEGORY_DIGIT:
                rs.append(z3.Range("0", "9"))
            elif av == sc.CATEGORY_SPACE:
                rs.append(z3.Union(*[z3.Re(c) for c in SPACE]))
            else:
                raise NotImplementedError(av)
        else:
            raise NotImplementedError(op)
    r = rs[0] if len(rs) == 1 else z3.Union(*rs)
    if neg:
        r = z3.Intersect(z3.Complement(r), z3.AllChar(z3.ReSort(z3.StringSort())))
    return r


def translate(parsed, groups=None):
    """-> z3 regex for the sequence; groups: dict group-number -> z3 regex of the group's own pattern."""
    parts = []
    for op, av in parsed:
        if op == sc.LITERAL:
            parts.append(z3.Re(chr(av)))
        elif op == sc.ANY:
            parts.append(z3.Intersect(z3.AllChar(z3.ReSort(z3.StringSort())), z3.Complement(z3.Re("\n"))))
        elif op == sc.IN:
            parts.append(_cls(av))
        elif op in (sc.MAX_REPEAT, sc.MIN_REPEAT):
            lo, hi, sub = av
            r = translate(sub, groups)
            if hi == sc.MAXREPEAT:
                parts.append(z3.Star(r) if lo == 0 else (z3.Plus(r) if lo == 1 else z3.Concat(z3.Loop(r, lo, lo), z3.Star(r))))
            else:
                parts.append(z3.Loop(r, lo, hi))
        elif op == sc.SUBPATTERN:
            r = translate(av[3], groups)
            if groups is not None and av[0] is not None:
                groups[av[0]] = r
            parts.append(r)
        elif op == sc.BRANCH:
            parts.append(z3.Union(*[translate(b, groups) for b in av[1]]))
        elif op == sc.AT:
            continue
        else:
            raise NotImplementedError(op)
    if not parts:
        return z3.Re("")
    return parts[0] if len(parts) == 1 else z3.Concat(*parts)


def compile_pattern(pattern):
    groups = {}
    r = translate(sp.parse(pattern), groups)
    return r, groups


def top_level_alternatives(pattern):
    p = sp.parse(pattern)
    if len(p) == 1 and p[0][0] == sc.BRANCH:
        return [translate(b) for b in p[0][1][1]], [b for b in p[0][1][1]]
    return [translate(p)], [p]


def sequence_with_group(parsed, group_var, group_no=1):
    """constraints expressing  s == pre ++ group ++ post  along the (single, top-level) sequence `parsed`
    where the capture group number group_no is bound to group_var.  Returns (list_of_string_terms, constraints)."""
    terms, cons = [], []
    for i, (op, av) in enumerate(parsed):
        if op == sc.SUBPATTERN and av[0] == group_no:
            cons.append(z3.InRe(group_var, translate(av[3])))
            terms.append(group_var)
        elif op == sc.AT:
            continue
        else:
            v = z3.String(f"seg!{i}!{id(parsed) % 9973}")
            cons.append(z3.InRe(v, translate([(op, av)])))
            terms.append(v)
    return terms, cons


FULL = z3.Full(z3.ReSort(z3.StringSort()))
DIGITS = z3.Plus(z3.Range("0", "9"))
