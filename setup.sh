#!/bin/bash
# Builds /verif/.venv: an overlay of /venv (the repository's own interpreter and numpy/scipy/numba)
# plus z3-solver, cvc5 and crosshair-tool from the offline wheelhouse.  Idempotent, offline.
set -e
cd "$(dirname "$0")"
V=.venv
if [ -x $V/bin/python ] && $V/bin/python -c "import z3, crosshair, numpy, scipy" 2>/dev/null; then
  exit 0
fi
rm -rf $V
/venv/bin/python -m venv $V
SP=$($V/bin/python -c "import sysconfig; print(sysconfig.get_paths()['purelib'])")
echo "import site; site.addsitedir('/venv/lib/python3.12/site-packages')" > "$SP/_verif_overlay.pth"
PIP_NO_INDEX=1 $V/bin/pip install -q --no-index --find-links /opt/veriftools/wheels z3-solver cvc5 crosshair-tool >/dev/null 2>&1 || \
PIP_NO_INDEX=1 $V/bin/pip install --no-index --find-links /opt/veriftools/wheels z3-solver cvc5 crosshair-tool
$V/bin/python -c "import z3, crosshair, numpy, scipy; print('verif venv ok: z3', z3.get_version_string(), 'numpy', numpy.__version__)"
